#!/usr/bin/env python3
"""dispatcher: ./check.py <ID> [--tier quick|thorough] [--replay file]"""
import os, sys, runpy
here = os.path.dirname(os.path.abspath(__file__))
if len(sys.argv) < 2:
    print("usage: check.py <ID> [--tier quick|thorough]"); sys.exit(2)
pid = sys.argv[1].upper()
script = os.path.join(here, "checks", pid.lower() + ".py")
if not os.path.exists(script):
    print("no check for", pid); sys.exit(2)
sys.argv = [script] + sys.argv[2:]
os.chdir(here)
runpy.run_path(script, run_name="__main__")
