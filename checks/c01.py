#!/usr/bin/env python3
"""C01 - text-string matches are exactly the documented occurrences.
Small-scope exhaustive enumeration: every text string over {00,20,'A','a'} up to a length bound x every legal modifier set
x every buffer over the same alphabet up to a length bound (+ 2-byte-unit buffers for wide forms, + a sweep of all 256 byte
values through seven templates), scanned by the real engine inside harness/space.c and compared offset by offset with the
by-definition matcher ref_text."""
import re, itertools, os, sys
sys.path.insert(0, os.path.join(os.path.dirname(os.path.abspath(__file__)), "..", "lib"))
import yv

SIGMA = [0x00, 0x20, 0x41, 0x61]
STD = b"ABCDEFGHIJKLMNOPQRSTUVWXYZabcdefghijklmnopqrstuvwxyz0123456789+/"
CUSTOM = b"!@#$%^&*(){}[].,|ABCDEFGHIJ\x09LMNOPQRSTUVWXYZabcdefghijklmnopqrstu"


def esc(bs):
    return "".join("\\x%02x" % b for b in bs)


def modifier_sets(full=True):
    """(source text of the modifiers, flag letters, extra spec tokens) for every legal combination explored"""
    out = []
    forms = [("", ""), ("ascii", "a"), ("wide", "w"), ("ascii wide", "aw")]
    kinds = [("", "", []), ("nocase", "n", []), ("xor", "x", ["xor=0-255"])]
    for k in (0x00, 0x20, 0x41, 0x61, 0xff):
        kinds.append(("xor(0x%02x)" % k, "x", ["xor=%d-%d" % (k, k)]))
    kinds.append(("xor(0x20-0x41)", "x", ["xor=32-65"]))
    kinds.append(("xor(0x00-0xff)", "x", ["xor=0-255"]))
    for (fs, ff) in forms:
        for fw in (0, 1):
            for (ks, kf, kx) in kinds:
                src = " ".join(x for x in (fs, "fullword" if fw else "", ks) if x)
                out.append((src, ff + ("f" if fw else "") + kf, kx))
    for (fs, ff) in forms:            # private: reported through the match lists like any other
        for (ks, kf, kx) in kinds[:3]:
            out.append((" ".join(x for x in (fs, ks, "private") if x), ff + kf + "p", kx))
    for (bs, btoks) in (("base64", ["b64=STD"]), ("base64wide", ["b64w=STD"]), ("base64 base64wide", ["b64=STD", "b64w=STD"]),
                        ('base64("%s")' % esc(CUSTOM), ["b64=CUS"]), ('base64wide("%s")' % esc(CUSTOM), ["b64w=CUS"])):
        for (fs, ff) in forms:
            toks = [t.replace("STD", STD.hex()).replace("CUS", CUSTOM.hex()) for t in btoks]
            out.append((" ".join(x for x in (fs, bs) if x), ff + "B", toks))
    return out


def program(pid, s, mod):
    src, flags, toks = mod
    decl = '$a = "%s" %s' % (esc(s), src)
    rule = "rule r1 { strings: %s condition: #a >= 0 } rule r2 { strings: %s condition: $a }" % (decl, decl)
    return "T %s %s %s %s %s" % (pid, yv.hx(rule), bytes(s).hex(), flags.replace("B", "").replace("p", "") or "-", " ".join(toks)), rule


_sp = {}


def get_space(variant, spacecmds):
    key = (variant, os.getpid(), tuple(spacecmds))
    s = _sp.get(key)
    if s is None:
        s = yv.Space(variant)
        for c in spacecmds:
            s.space(c)
        _sp[key] = s
    return s


def run_chunk(arg):
    variant, spacecmds, progs = arg
    sp = get_space(variant, spacecmds)
    out = []
    for (pid, line, rule, flags, meta) in progs:
        try:
            if meta.get("space"):
                sp.send(meta["space"])
            r = sp.send(line)
        except yv.WorkerDied as e:
            r = dict(id=pid, crash=e.rc, stderr=e.err[-2000:])
            sp.restart()
        out.append((pid, rule, flags, meta, r))
    return out


def sweep_buffers(s, xidx, mod):
    """buffers for the 256-sweep: every variant encoding of the string (and of a near miss) framed by {'', '-', 'a'}"""
    src, flags, toks = mod
    bufs = set()
    keys = [0]
    if "x" in flags:
        lo, hi = map(int, toks[0][4:].split("-"))
        keys = sorted(set([lo, hi, (lo + hi) // 2]))
    bases = [bytes(s)]
    near = list(s); near[xidx] = (near[xidx] + 1) & 0xff; bases.append(bytes(near))
    if "n" in flags:
        bases.append(bytes(s).swapcase())
    # the case bit flipped on bytes whether or not they are letters (0x5b..0x60 sit between 'Z' and 'a'): must match only for real letters under nocase
    bases.append(bytes(c ^ 0x20 for c in s))
    flip = list(s); flip[xidx] ^= 0x20; bases.append(bytes(flip))
    for b in bases:
        for k in keys:
            forms = [bytes(c ^ k for c in b), bytes(x for c in b for x in (c ^ k, 0 ^ k))]
            for f in forms:
                for pre in (b"", b"-", b"a", b"a\0"):
                    for post in (b"", b"-", b"a", b"a\0"):
                        v = pre + f + post
                        if len(v) <= 63:
                            bufs.add(v)
    return sorted(bufs)


def main():
    ck = yv.Check("C01", "exploration")
    quick = ck.tier == "quick"
    maxs = 3 if quick else 4
    maxb = 7 if quick else 8
    mods = modifier_sets()
    strings = [t for n in range(1, maxs + 1) for t in itertools.product(SIGMA, repeat=n)]
    # length-5 strings (longer than an atom): all over the reduced alphabet {00,41,61} (quick: {00,41})
    strings += list(itertools.product([0x00, 0x41] if quick else [0x00, 0x41, 0x61], repeat=5))
    spaces = {
        "B1": ["B all %s %d" % (bytes(SIGMA).hex(), maxb),
               "B add units %s %d %s %s" % ("".join("%02x00" % c for c in SIGMA) + "6161", 3 if quick else 4, "61", "61")],
    }
    jobs = []
    n = 0
    for s in strings:
        for mod in mods:
            if "B" in mod[1] and len(s) > 3:
                continue
            n += 1
            line, rule = program("p%d" % n, s, mod)
            jobs.append(("p%d" % n, line, rule, mod[1], dict(string=bytes(s).hex(), mods=mod[0])))
    chunks = [("plain", spaces["B1"], c) for c in yv.chunked(jobs, 60)]
    # 256-sweep: x = every byte value through 7 templates
    sweep = []
    templates = [("x", 0), ("xab", 0), ("abx", 2), ("axb", 1), ("abcxd", 3), ("xabcd", 0), ("abcdx", 4)]
    sweep_mods = [m for m in mods if "B" not in m[1] and "p" not in m[1]]
    if quick:
        sweep_mods = [m for m in sweep_mods if m[2] in ([], ["xor=0-255"], ["xor=32-65"])]
    for x in range(256):
        for (tpl, xi) in templates:
            s = [x if ch == "x" else ord(ch) for ch in tpl]
            for mod in sweep_mods:
                n += 1
                line, rule = program("s%d" % n, s, mod)
                bl = "B list " + " ".join(b.hex() or "-" for b in sweep_buffers(s, xi, mod))
                sweep.append(("s%d" % n, line, rule, mod[1], dict(string=bytes(s).hex(), mods=mod[0], space=bl)))
    chunks += [("plain", [], c) for c in yv.chunked(sweep, 200)]
    # base64 sweep: every byte value in each position of a 3-byte group (all 64 sextet values, '+' and '/' included, reach every character position of the
    # encodings), default and custom alphabet, narrow and wide; buffers = the encodings of the string at the three alignments, of a near miss, and framed
    import base64 as _b64
    b64mods = [m for m in mods if "B" in m[1] and "a" not in m[1] and "w" not in m[1]] if quick else [m for m in mods if "B" in m[1]]
    bsweep = []
    for x in range(256):
        for tpl in ((0x61, 0x62, None), (0x61, None, 0x62), (None, 0x61, 0x62)):
            st = [x if c is None else c for c in tpl]
            for mod in b64mods:
                n += 1
                line, rule = program("b%d" % n, st, mod)
                alph = CUSTOM if any("=" + CUSTOM.hex() in t for t in mod[2]) else STD
                tr = bytes.maketrans(STD, alph)
                bufs = set()
                near = list(st); near[tpl.index(None)] ^= 0x01
                for body in (bytes(st), bytes(near)):
                    for pre in (b"", b"q", b"qq"):
                        for post in (b"", b"z", b"zz"):
                            e = _b64.b64encode(pre + body + post).rstrip(b"=").translate(tr)
                            bufs.add(e); bufs.add(b"-" + e + b"-"); bufs.add(bytes(y for c in e for y in (c, 0)))
                bl = "B list " + " ".join(b.hex() for b in sorted(bufs) if len(b) <= 63)
                bsweep.append(("b%d" % n, line, rule, mod[1], dict(string=bytes(st).hex(), mods=mod[0], space=bl)))
    chunks += [("plain", [], c) for c in yv.chunked(bsweep, 100)]
    if quick:
        # the core space once more under ASan/UBSan (short strings only)
        asan_jobs = [j for j in jobs if len(j[4]["string"]) <= 4]
        chunks += [("asan", ["B all %s 5" % bytes(SIGMA).hex()], c) for c in yv.chunked(asan_jobs, 120)]
    for v in ("plain", "asan"):
        yv.space_exe(v)
    progs = nontriv = 0
    rejected = {}
    for res in yv.pmap(run_chunk, chunks, ck, prebuild=()):
        for (pid, rule, flags, meta, r) in res:
            progs += 1
            if "crash" in r:
                ck.violation("C01:crash:" + "".join(sorted(flags)), dict(rule=rule, **meta, rc=r["crash"], stderr=r["stderr"]))
                continue
            if "cerr" in r:
                rejected[r["cerr"]] = rejected.get(r["cerr"], 0) + 1
                ck.violation("C01:legal-declaration-rejected:" + "".join(sorted(flags)), dict(rule=rule, error=r["cerr"], **meta))
                continue
            ck.cov["evaluations"] += r["evals"]
            nontriv += r["nontrivial"]
            ck.sub("limits", limit_hits=r["limit"])
            for v in r["viol"]:
                shape = ""
                if v["what"] == "missed" and "a" in flags and "w" in flags and "f" in flags:
                    # does the ascii form of the string occur at the missed offset *inside* its own wide form? (only possible for
                    # strings whose tail is all NUL bytes)
                    st = bytes.fromhex(meta["string"])
                    if len(st) > 1 and all(c == 0 for c in st[1:]):
                        shape = ":string-is-x-then-NULs(ascii-form-is-prefix-of-wide-form)"
                if v["what"] == "extra" and "x" in flags and "a" in flags and "w" in flags:
                    # every unexpected occurrence carries a key the declaration does not allow (the verifier derives the key from the
                    # data and never compares it with the declared range; an atom of the wide form led it there)
                    m = re.search(r"xor\((0x[0-9a-fA-F]+)(?:-(0x[0-9a-fA-F]+))?\)", meta["mods"])
                    lo, hi = (int(m.group(1), 16), int(m.group(2) or m.group(1), 16)) if m else (0, 255)
                    got = [g for g in v["got"] if g[0] == v["expected"].get("offset")]
                    if got and all(not (lo <= g[2] <= hi) for g in got):
                        shape = ":key-outside-declared-xor-range"
                ck.violation("C01:%s:%s%s" % (v["what"], "".join(sorted(flags)), shape), dict(rule=rule, buffer_hex=v["buffer"], reported=v["got"], expected=v["expected"], **meta,
                                                                                     replay="echo 'rule' > r.yar; printf buffer | yara -s r.yar /dev/stdin"))
            if r["nontrivial"] and not r["viol"]:
                ck.sample(dict(rule=rule, buffers_scanned=r["evals"], buffers_with_expected_matches=r["nontrivial"], matches_checked=r["reported"]), cap=4)
    ck.cov["distinct_nontrivial"] = nontriv
    ck.cov["programs"] = progs
    ck.cov["rule"] = ("programs = text strings over {00,20,41,61} (len<=%d%s) x %d legal modifier sets, plus 256 byte values x 7 templates x modifier sets; plus 256 byte values x 3 positions of a 3-byte group x base64 modifier sets against the encodings at the three alignments; "
                      "inputs = every buffer over the alphabet with length<=%d plus 2-byte-unit sequences; a case = (program, buffer); non-trivial = the "
                      "reference expects at least one match in that buffer (distinct by construction: each (program, buffer) pair is visited once)" % (
                          maxs, " and all len-5 over " + ("{00,41}" if quick else "{00,41,61}"), len(mods), maxb))
    ck.assumptions += ["fullword neighbours are raw buffer bytes (also for xor strings); for a wide occurrence the neighbour is a 2-byte unit <alnum> 00",
                       "base64 = the three position-dependent encodings with neighbour-dependent characters stripped (manual's example reproduces)",
                       "where ascii/wide/xor variants coincide at one offset any admissible (length, key) is accepted"]
    ck.finish()


if __name__ == "__main__":
    main()
