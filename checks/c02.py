#!/usr/bin/env python3
"""C02 - hex-string matches are exactly the documented occurrences.
Every hex pattern of a bounded grammar x every buffer over {41,40,61,00} up to a length bound, real engine vs the position-set
reference ref_hex (harness/refmatch.h).  String chaining is reached twice: with the chaining threshold scaled to 3 (`small`
build, jumps [3] [2-3] [3-4] [4-6] [3-] inside 8-byte buffers) and with the real constant 200 (boundary jumps 198..202 with
several candidate heads/tails, python reference)."""
import itertools, os, sys
sys.path.insert(0, os.path.join(os.path.dirname(os.path.abspath(__file__)), "..", "lib"))
import yv

ANY = "B 00 00 0"
# element: (source, ast, class, is_token)
BYTES = [("41", "B 41 ff 0", "lit"), ("40", "B 40 ff 0", "lit"), ("61", "B 61 ff 0", "lit"), ("00", "B 00 ff 0", "lit"),
         ("4?", "B 40 f0 0", "mask"), ("?1", "B 01 0f 0", "mask"), ("??", ANY, "mask"),
         ("~41", "B 41 ff 1", "not"), ("~?1", "B 01 0f 1", "not"), ("~4?", "B 40 f0 1", "not")]
ALTS = [("(41|40)", "| B 41 ff 0 B 40 ff 0", "alt"), ("(41|40 61)", "| B 41 ff 0 . B 40 ff 0 B 61 ff 0", "alt"),
        ("((41|40)|61)", "| | B 41 ff 0 B 40 ff 0 B 61 ff 0", "alt"), ("(41 [1-2] 61|40)", "| . B 41 ff 0 . R 1 2 %s B 61 ff 0 B 40 ff 0" % ANY, "alt")]
def J(a, b): return ("[%d-%d]" % (a, b) if a != b else "[%d]" % a, "R %d %d %s" % (a, b, ANY), "jump")
def JU(a): return ("[%d-]" % a if a else "[-]", "R %d -1 %s" % (a, ANY), "ujump")
JUMPS = [J(1, 1), J(0, 1), J(1, 2), J(0, 2), JU(2), JU(0)]
BIG = [J(3, 3), J(2, 3), J(3, 4), J(4, 6), JU(3)]       # chained when the threshold is 3
RED_TOK = [BYTES[0], BYTES[5], BYTES[7], ALTS[0]]
RED_J = [J(1, 2), JU(2)]


def concat(asts):
    if len(asts) == 1: return asts[0]
    return ". " + asts[0] + " " + concat(asts[1:])


def patterns(toks, mids, n):
    if n == 1:
        for t in toks: yield [t]
        return
    for first in toks:
        for mid in itertools.product(mids, repeat=n - 2):
            for last in toks:
                yield [first] + list(mid) + [last]


def var_len(e):
    """element can match byte sequences of different lengths"""
    return e[2] == "ujump" or (e[2] == "jump" and "-" in e[0] and e[0][1:-1].split("-")[0] != e[0][1:-1].split("-")[1]) or e[0] in ("(41|40 61)", "(41 [1-2] 61|40)")


def chain_shape(elems):
    """for patterns with a jump over the (scaled) threshold: is some piece BEFORE a chaining gap of variable length?"""
    cuts = [i for i, e in enumerate(elems) if e in BIG]
    if not cuts: return ""
    head = elems[:cuts[-1]]
    heads_var = any(var_len(e) for e in head if e not in BIG) or any(
        e in BIG and i + 1 < len(elems) and elems[i + 1][2] in ("jump", "ujump") for i, e in enumerate(elems)) or any(
        e in BIG and i > 0 and elems[i - 1][2] in ("jump", "ujump") and var_len(elems[i - 1]) for i, e in enumerate(elems))
    return ":variable-length-piece-before-chain-gap" if heads_var else ":fixed-length-pieces"


def prog(pid, elems):
    src = "{ " + " ".join(e[0] for e in elems) + " }"
    rule = "rule r1 { strings: $a = %s condition: #a >= 0 } rule r2 { strings: $a = %s condition: $a }" % (src, src)
    feats = "+".join(sorted(set(e[2] for e in elems)))
    if chain_shape(elems):
        feats = "chain" + chain_shape(elems)
    return (pid, "A %s %s s %s" % (pid, yv.hx(rule), concat([e[1] for e in elems])), src, feats)


def window_family(quick):
    """long fixed-length runs (5..7, thorough ..8 one-byte elements: literal / ?? / nibble mask / negation) - longer than the 4-byte atom, so that the
    atom extractor has to slide its window, trim wildcards at the window's ends and bind the chosen atom to the right forward / backward code; each
    pattern gets its own buffer list: instances with different fillers for the non-literal positions, framed by 0-2 junk bytes, doubled, and one near
    miss per literal position.  Two literal palettes (rare bytes; common bytes 00 20 FF 41 that the quality heuristic penalises)."""
    out = []
    pal = [[0x10, 0x21, 0x32, 0x43, 0x54, 0x65, 0x76, 0x87], [0x00, 0x20, 0xff, 0x41, 0x00, 0x61, 0x20, 0x0a]]
    kinds = "LWMN" if not quick else "LWM"
    for n in ((5, 6, 7) if quick else (5, 6, 7, 8)):
        for mid in itertools.product(kinds, repeat=n - 2):
            shape = "L" + "".join(mid) + "L"
            if shape.count("L") < 3: continue
            for pi, P in enumerate(pal):
                if quick and pi == 1 and n == 7: continue
                elems, inst = [], []
                for i, k in enumerate(shape):
                    b = P[i]
                    if k == "L": elems.append(("%02X" % b, "B %02x ff 0" % b, "lit")); inst.append(("L", b))
                    elif k == "W": elems.append(("??", ANY, "mask")); inst.append(("W", 0))
                    elif k == "M": elems.append(("%X?" % (b >> 4), "B %02x f0 0" % (b & 0xf0), "mask")); inst.append(("M", b & 0xf0))
                    else: elems.append(("~%02X" % b, "B %02x ff 1" % b, "not")); inst.append(("N", b))
                def make(fill):
                    o = bytearray()
                    for k, b in inst:
                        o.append(b if k == "L" else fill if k == "W" else (b | (fill & 0x0f)) if k == "M" else (fill if fill != b else fill ^ 0x55))
                    return bytes(o)
                bufs = set()
                base = [make(0x00), make(0xee), make(P[1]), make(P[-1])]
                for v in base:
                    for pre in (b"", b"\x99", b"\x00\x10"):
                        for post in (b"", b"\x10"):
                            bufs.add(pre + v + post)
                    bufs.add(v + v); bufs.add(v[:-1] + v); bufs.add(v[:3] + v)
                v = base[0]
                for i, (k, b) in enumerate(inst):
                    if k == "L": bufs.add(b"\x99" + v[:i] + bytes([b ^ 0x04]) + v[i + 1:] + b"\x10")
                    if k == "N": bufs.add(b"\x99" + v[:i] + bytes([b]) + v[i + 1:] + b"\x10")
                bl = "B list " + " ".join(x.hex() for x in sorted(bufs) if len(x) <= 63)
                pid, line, src, feats = prog("w%d_%s_%d" % (n, shape, pi), elems)
                out.append((pid, line, src, "window-family:" + feats, bl))
    return out


_sp = {}
def run_chunk(arg):
    variant, spacecmd, progs = arg
    key = (variant, os.getpid(), spacecmd)
    sp = _sp.get(key)
    if sp is None:
        sp = yv.Space(variant)
        if spacecmd: sp.space(spacecmd)
        _sp[key] = sp
    out = []
    for it in progs:
        (pid, line, src, feats) = it[:4]
        try:
            if len(it) > 4: sp.send(it[4])
            r = sp.send(line)
        except yv.WorkerDied as e:
            r = dict(id=pid, crash=e.rc, stderr=e.err[-2000:]); sp.restart()
        out.append((pid, src, feats, variant, r))
    return out


# ---------------------------------------------------------------------------- real threshold (python reference)
def naive_chain(pieces, gaps, data):
    """pieces: list of byte strings, gaps: list of (lo, hi or None). returns {offset: set(lengths)}"""
    res = {}
    def ends_from(i, pos):
        # set of end positions matching pieces[i:] starting exactly at pos
        p = pieces[i]
        if data[pos:pos + len(p)] != p: return set()
        e = pos + len(p)
        if i == len(pieces) - 1: return {e}
        lo, hi = gaps[i]
        out = set()
        g = lo
        while e + g <= len(data) and (hi is None or g <= hi):
            out |= ends_from(i + 1, e + g); g += 1
        return out
    for o in range(len(data)):
        es = ends_from(0, o)
        if es: res[o] = {e - o for e in es}
    return res


def real_threshold(ck):
    w = yv.get_worker("plain")
    H, T, M = b"ABCD", b"EFGH", b"MNOP"
    n_cases = 0
    specs = []
    for n in range(198, 203):
        for m in range(n, 203):
            specs.append(([H, T], [(n, m)], "[%d-%d]" % (n, m)))
    specs.append(([H, T], [(200, None)], "[200-]")); specs.append(([H, T], [(201, None)], "[201-]")); specs.append(([H, T], [(0, None)], "[-]"))
    for (a, b) in ((199, 201), (200, 202), (0, 300)):
        specs.append(([H, M, T], [(a, b), (0, None)], "[%d-%d]..[-]" % (a, b)))
        specs.append(([H, M, T], [(0, None), (a, b)], "[-]..[%d-%d]" % (a, b)))
        specs.append(([H, M, T], [(a, b), (a, b)], "[%d-%d]..[%d-%d]" % (a, b, a, b)))
    specs.append(([H, T], [(201, 302)], "[1-2] [200-300]"))
    specs.append(([H, b"X", T], [(1, 2), (200, 300)], "[1-2] 58 [200-300]"))
    for pieces, gaps, label in specs:
        def js(g): return "[%d-%s]" % (g[0], "" if g[1] is None else g[1]) if g != (0, None) else "[-]"
        src = "{ " + " ".join(" ".join("%02X" % c for c in p) + (" " + js(gaps[i]) if i < len(gaps) else "") for i, p in enumerate(pieces)) + " }"
        if label == "[1-2] [200-300]":
            src = "{ 41 42 43 44 [1-2] [200-300] 45 46 47 48 }"
        rep = w.batch(["reset", "compiler 0", "add 0 - " + yv.hx("rule r { strings: $a = %s condition: $a }" % src), "getrules 0 0", "cdestroy 0", "scanner 0 0"])
        if rep[2]["errors"]:
            ck.violation("C02:legal-pattern-rejected:real-threshold", dict(pattern=src, reply=rep[2])); continue
        # buffers: 1-2 heads, 1-2 (middles), 1-2 tails at gaps around the bounds
        lo, hi = gaps[0]
        gapvals = sorted(set(g for g in (lo - 1, lo, lo + 1, (hi or lo + 5) - 1, hi or lo + 5, (hi or lo + 5) + 1) if g >= 0))
        bufs = []
        if len(pieces) == 2:
            for g1 in gapvals:
                bufs.append(b"." * 3 + H + b"." * g1 + T + b"..")
                for g2 in gapvals:
                    if g2 > g1 + 4:
                        bufs.append(b"." + H + b"." * g1 + T + b"." * (g2 - g1 - 4) + T)           # two tails for one head
                    bufs.append(H + b"." * 2 + H + b"." * g1 + T + b".")                            # two heads, one tail
                    bufs.append(H + b"." * 6 + H + b"." * max(0, g1 - 10) + T + b"." * 3 + T)
        else:
            lo2, hi2 = gaps[1]
            g2vals = sorted(set(g for g in (lo2, lo2 + 1, (hi2 or lo2 + 3), (hi2 or lo2 + 3) + 1) if g >= 0))
            for g1 in gapvals:
                for g2 in g2vals:
                    bufs.append(b"." + H + b"." * g1 + M + b"." * g2 + T)
                    bufs.append(b"." + H + b"." * g1 + M + b"." * 5 + M + b"." * g2 + T)            # two middles
                    bufs.append(H + b"." * 3 + H + b"." * g1 + M + b"." * g2 + T + b"." + T)       # two heads, two tails
                    for g1b in gapvals:
                        if g1b > g1 + 4:
                            bufs.append(b"." + H + b"." * g1 + M + b"." * (g1b - g1 - 4) + M + b"." * g2 + T)   # in-range and far middle
        for b in bufs:
            exp = naive_chain(pieces, gaps, b)
            r = w.cmd("scan target=s0 via=mem data=" + yv.hx(b))
            n_cases += 1
            got = []
            for m in r["t"]:
                if m[0] in ("m", "n"):
                    got = [(x[0], x[1]) for x in m[2][0][1]]
            bad = None
            if [o for o, _ in got] != sorted(exp):
                bad = "missed" if set(exp) - {o for o, _ in got} else "extra"
            elif any(l not in exp[o] for o, l in got):
                bad = "wrong-length"
            if bad:
                shape = ":variable-length-piece-before-chain-gap" if label.startswith("[1-2]") else ""
                ck.violation("C02:%s:chain-real-threshold:%dpieces%s" % (bad, len(pieces), shape),
                             dict(pattern=src, buffer_hex=b.hex(), expected={o: sorted(v) for o, v in exp.items()}, reported=got))
    ck.sub("real-threshold-chains", patterns=len(specs), cases=n_cases)
    ck.cov["evaluations"] += n_cases
    yv.drop_worker("plain")


def main():
    ck = yv.Check("C02", "exploration", deadlines=(240, 3300))
    quick = ck.tier == "quick"
    TOK = BYTES + ALTS
    jobs_plain, jobs_small = [], []
    n = 0
    def add(lst, elems):
        nonlocal n
        n += 1; lst.append(prog("h%d" % n, elems))
    for L in (1, 2, 3):
        for e in patterns(TOK, TOK + JUMPS, L): add(jobs_plain, e)
    if quick:
        for e in patterns(RED_TOK, RED_TOK + RED_J, 4): add(jobs_plain, e)
    else:
        for e in patterns(TOK, TOK + JUMPS, 4): add(jobs_plain, e)
        for e in patterns(RED_TOK, RED_TOK + RED_J, 5): add(jobs_plain, e)
    # scaled threshold: patterns with at least one big jump
    for e in patterns(TOK, TOK + JUMPS + BIG, 3):
        if any(x in BIG for x in e): add(jobs_small, e)
    red_mid = RED_TOK + RED_J + BIG
    for e in patterns(RED_TOK, red_mid, 4):
        if any(x in BIG for x in e): add(jobs_small, e)
    if not quick:
        for e in patterns(RED_TOK, red_mid, 5):
            if sum(x in BIG for x in e) >= 2: add(jobs_small, e)          # three-piece chains
    # newline family: hex wildcards, jumps and negations match ANY byte, 0x0A included (hex strings are compiled as dot-all regexes; patterns with an
    # alternation run on the general regex engine, the others on the fast path): small token set, buffers over {41, 0A, 40}
    NL = [("41", "B 41 ff 0", "lit"), ("0A", "B 0a ff 0", "lit"), ("??", ANY, "mask"), ("~41", "B 41 ff 1", "not"), ("4?", "B 40 f0 0", "mask"), ("?A", "B 0a 0f 0", "mask"),
          ("(41|40)", "| B 41 ff 0 B 40 ff 0", "alt"), ("(0A|41 41)", "| B 0a ff 0 . B 41 ff 0 B 41 ff 0", "alt")]
    jobs_nl = []
    for L in (2, 3, 4):
        for e in patterns(NL, NL + [J(1, 2), JU(0), J(2, 2)], L):
            if L == 4 and quick and not any(x[2] == "alt" for x in e): continue
            n += 1; pr = prog("n%d" % n, e); jobs_nl.append((pr[0], pr[1], pr[2], "newline-family:" + pr[3]))
    alpha = "41406100"
    lb = 7 if quick else 8
    chunks = [("plain", "B all %s %d" % (alpha, lb), c) for c in yv.chunked(jobs_plain, 40)]
    chunks += [("small", "B all %s %d" % (alpha, 8 if quick else 9), c) for c in yv.chunked(jobs_small, 20)]
    chunks += [("plain", None, c) for c in yv.chunked(window_family(quick), 100)]
    chunks += [("plain", "B all 410a40 %d" % (7 if quick else 8), c) for c in yv.chunked(jobs_nl, 60)]
    if quick:
        chunks += [("asan", "B all %s 5" % alpha, c) for c in yv.chunked(jobs_plain[:3500:3], 60)]
    for v in ("plain", "small", "asan"): yv.space_exe(v)
    real_threshold(ck)
    progs = nontriv = 0
    for res in yv.pmap(run_chunk, chunks, ck, prebuild=()):
        for (pid, src, feats, variant, r) in res:
            progs += 1
            tag = feats + (":scaled-threshold" if variant == "small" else "")
            if "crash" in r:
                ck.violation("C02:crash:" + tag, dict(pattern=src, rc=r["crash"], stderr=r["stderr"], variant=variant)); continue
            if "cerr" in r:
                ck.violation("C02:legal-pattern-rejected:" + tag, dict(pattern=src, error=r["cerr"], variant=variant)); continue
            ck.cov["evaluations"] += r["evals"]; nontriv += r["nontrivial"]
            ck.sub("limits", limit_hits=r["limit"])
            for v in r["viol"]:
                ck.violation("C02:%s:%s" % (v["what"], tag), dict(pattern=src, variant=variant, buffer_hex=v["buffer"], reported=v["got"], expected=v["expected"]))
            if r["nontrivial"] and not r["viol"] and (progs % 997 == 0):
                ck.sample(dict(pattern=src, build=variant, buffers_scanned=r["evals"], buffers_with_expected_matches=r["nontrivial"], matches_checked=r["reported"]))
    ck.cov["distinct_nontrivial"] = nontriv
    ck.cov["programs"] = progs
    ck.cov["rule"] = ("programs = every grammar-legal sequence of <=3 (quick) / <=4 (thorough) elements from {4 bytes, 3 masks, 3 negations, 4 alternations, "
                      "6 jumps} (+ length 4/5 over a reduced alphabet) on the shipped constants, and every such pattern containing a jump over "
                      "the chaining threshold on the build with the threshold scaled to 3; inputs = all buffers over {41,40,61,00} with length <= %d; "
                      "non-trivial = (pattern, buffer) pairs where the reference expects a match; plus boundary chains on the real threshold 200; plus the newline family (<=4 elements of {41, 0A, ??, ~41, 4?, ?A, two alternations, three jumps} over all buffers of {41,0A,40}); plus the window family: "
                      "every fixed-length run of 5..7 (8) one-byte elements {literal, ??, nibble mask, negation} in two byte palettes, each against its own instance / near-miss buffers" % lb)
    ck.assumptions += ["the scaled-threshold build is the same source with YR_STRING_CHAINING_THRESHOLD=3", "reported length must be one the pattern can match at that offset"]
    ck.finish()


if __name__ == "__main__":
    main()
