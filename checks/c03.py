#!/usr/bin/env python3
"""C03 - regular-expression strings and `matches` agree with regex semantics.
Every regex AST up to a node bound (leaves a b . [ab] [^a] \\w \\W \\d \\s \\b \\B ^ $, operators concat | * + ? {n} {n,m} {n,} {,m}),
printed all-greedy and all-lazy, under flags /i /s and string modifiers, x every buffer over {a,b,A,\\n,' ','1'} up to a length
bound; plus the family P(X){n,m}Q that moves the atom around counted repeats.  Reference: position-set semantics (ref_re)."""
import itertools, os, sys
sys.path.insert(0, os.path.join(os.path.dirname(os.path.abspath(__file__)), "..", "lib"))
import yv

ALPHA = bytes([0x61, 0x62, 0x41, 0x0a, 0x20, 0x31])
WORD = set(b"abcdefghijklmnopqrstuvwxyzABCDEFGHIJKLMNOPQRSTUVWXYZ0123456789_")
SPACE = set(b" \t\r\n\v\f")
LEAVES = ["a", "b", ".", "[ab]", "[^a]", "\\w", "\\W", "\\d", "\\s", "\\b", "\\B", "^", "$"]
ZEROW = {"\\b", "\\B", "^", "$"}
QUANTS = [("*", 0, -1), ("+", 1, -1), ("?", 0, 1), ("{2}", 2, 2), ("{1,2}", 1, 2), ("{0,2}", 0, 2), ("{2,}", 2, -1), ("{,2}", 0, 2)]


def cls_hex(chars, neg=False):
    bm = bytearray(32)
    for c in range(256):
        if (c in chars) != neg:
            bm[c >> 3] |= 1 << (c & 7)
    return "C " + bm.hex()


def leaf_ast(l, icase, dotall):
    def ci(s):
        s = set(s)
        if icase:
            s |= {c ^ 0x20 for c in s if chr(c).isalpha()}
        return s
    if l == "a": return cls_hex(ci(b"a")) if icase else "B 61 ff 0"
    if l == "b": return cls_hex(ci(b"b")) if icase else "B 62 ff 0"
    if l == ".": return cls_hex(set(range(256)) - (set() if dotall else {0x0a}))
    if l == "[ab]": return cls_hex(ci(b"ab"))
    if l == "[^a]": return cls_hex(ci(b"a"), True)
    if l == "\\w": return cls_hex(WORD)
    if l == "\\W": return cls_hex(WORD, True)
    if l == "\\d": return cls_hex(set(b"0123456789"))
    if l == "\\s": return cls_hex(SPACE)
    return {"\\b": "b", "\\B": "N", "^": "^", "$": "$"}[l]


# AST: ('l', leaf) | ('c', x, y) | ('|', x, y) | ('q', x, qi)
def gen(n, memo={}):
    if n in memo: return memo[n]
    out = []
    if n == 1:
        out = [("l", l) for l in LEAVES]
    else:
        for x in gen(n - 1):
            if x[0] == "l" and x[1] in ZEROW: continue
            if x[0] == "q": continue                       # nested quantifiers directly on a quantifier: rejected by the grammar
            for qi in range(len(QUANTS)):
                out.append(("q", x, qi))
        for k in range(1, n - 1):
            for x in gen(k):
                for y in gen(n - 1 - k):
                    out.append(("c", x, y)); out.append(("|", x, y))
    memo[n] = out
    return out


def show(t, lazy, top=True):
    k = t[0]
    if k == "l": return t[1]
    if k == "q":
        inner = show(t[1], lazy, False)
        if t[1][0] != "l": inner = "(" + inner + ")"
        return inner + QUANTS[t[2]][0] + ("?" if lazy else "")
    if k == "c":
        a, b = show(t[1], lazy, False), show(t[2], lazy, False)
        if t[1][0] == "|": a = "(" + a + ")"
        if t[2][0] == "|": b = "(" + b + ")"
        return a + b
    return show(t[1], lazy, False) + "|" + show(t[2], lazy, False)


def ast(t, icase, dotall):
    k = t[0]
    if k == "l": return leaf_ast(t[1], icase, dotall)
    if k == "q": return "R %d %d %s" % (QUANTS[t[2]][1], QUANTS[t[2]][2], ast(t[1], icase, dotall))
    return "%s %s %s" % ("." if k == "c" else "|", ast(t[1], icase, dotall), ast(t[2], icase, dotall))


def feats(t, acc=None):
    acc = set() if acc is None else acc
    if t[0] == "l":
        acc.add({"\\b": "wb", "\\B": "wb", "^": "anchor", "$": "anchor", ".": "dot"}.get(t[1], "cls" if len(t[1]) > 1 else "lit"))
    elif t[0] == "q":
        q = QUANTS[t[2]][0]; acc.add("rep" if q.startswith("{") else {"*": "star", "+": "plus", "?": "opt"}[q]); feats(t[1], acc)
    else:
        acc.add("alt" if t[0] == "|" else "cat"); feats(t[1], acc); feats(t[2], acc)
    return acc


def has(t, pred):
    if t[0] == "l": return pred(t)
    if t[0] == "q": return pred(t) or has(t[1], pred)
    return has(t[1], pred) or has(t[2], pred)


def prog(pid, src, astp, mode, mods, flags, tag):
    if mode == "m":
        rule = "rule r1 { condition: ext matches /%s/%s }" % (src, flags)
        return (pid, "A %s %s m %s" % (pid, yv.hx(rule), astp), "/%s/%s (matches)" % (src, flags), tag + ":matches")
    decl = "$a = /%s/%s %s" % (src, flags, mods)
    rule = "rule r1 { strings: %s condition: #a >= 0 } rule r2 { strings: %s condition: $a }" % (decl, decl)
    opts = "s" + ("l" if ":lazy" in tag else "") + ("f" if "fullword" in mods else "") + ("w" if "wide" in mods else "") + ("a" if ("ascii" in mods or "wide" not in mods) else "")
    return (pid, "A %s %s %s %s" % (pid, yv.hx(rule), opts, astp), decl, tag)


_sp = {}
def run_chunk(arg):
    variant, spacecmds, progs = arg
    key = (variant, os.getpid(), tuple(spacecmds))
    sp = _sp.get(key)
    if sp is None:
        sp = yv.Space(variant)
        for c in spacecmds: sp.space(c)
        _sp[key] = sp
    out = []
    for it in progs:
        (pid, line, src, tag) = it[:4]
        try:
            if len(it) > 4: sp.send(it[4])
            r = sp.send(line)
        except yv.WorkerDied as e:
            r = dict(id=pid, crash=e.rc, stderr=e.err[-2000:]); sp.restart()
        out.append((pid, src, tag, variant, r))
    return out


MATCH_RES = ["a", "b", "ab", "ba", "^a", "a$", "b$", "^ab$", "^b", ".", "^.$", "^..$", "^...$", "^.{2}$", "^.{3,4}$", "a.b", "a.*b", "^a.*b$", "[^a]", "^[^a]+$", "^[ab]+$", "\\x00", "a\\x00",
             "\\x00b", "^\\x00", "\\x00$", "b\\x00a", ".\\x00.", "(a|b)\\x00", "a+$", "\\x00+$", "^[^\\x00]+$", "^a?b?\\x00?$", "[\\x00a]b"]


def matches_operand_chunk(chunk):
    """`<string literal> matches /re/flags` for operands that contain NUL bytes: the operand is a counted string, the regexp sees all of it"""
    import re as pyre
    w = yv.get_worker("plain")
    out = []
    rules = []
    for k, (op, rx, fl) in enumerate(chunk):
        lit = "".join("\\x%02x" % c for c in op)
        rules.append('rule m%d { condition: "%s" matches /%s/%s }' % (k, lit, rx, fl))
    rep = w.batch(["reset", "compiler 0", "add 0 - " + yv.hx("\n".join(rules)), "getrules 0 0", "cdestroy 0", "scan target=r0 via=mem ml=0 data=" + yv.hx(b"x")])
    if rep[2]["errors"]:
        return [("C03:matches-operand:rejected", dict(messages=rep[2]["msgs"][:2]))], 0
    got = {m[1].split(":")[1]: m[0] == "m" for m in rep[-1]["t"] if m[0] in ("m", "n")}
    for k, (op, rx, fl) in enumerate(chunk):
        pat = rx.replace("\\\\", "\\").encode()
        exp = pyre.search(pat, op, (pyre.I if "i" in fl else 0) | (pyre.S if "s" in fl else 0)) is not None
        if got.get("m%d" % k) != exp:
            out.append(("C03:%s:matches-operand-with-nul" % ("missed" if exp else "extra"), dict(operand_hex=op.hex(), regex="/%s/%s" % (rx, fl), expected=exp, observed=got.get("m%d" % k))))
    return out, len(chunk)


def main():
    ck = yv.Check("C03", "exploration")
    quick = ck.tier == "quick"
    jobs, jobs4, fam, widej = [], [], [], []
    n = 0
    def pid():
        nonlocal n
        n += 1; return "r%d" % n
    for size in (1, 2, 3):
        for t in gen(size):
            if t[0] == "l" and t[1] in ZEROW: continue            # a bare anchor is not a string
            quant = has(t, lambda x: x[0] == "q")
            letters = has(t, lambda x: x[0] == "l" and x[1] in ("a", "b", "[ab]", "[^a]"))
            dot = has(t, lambda x: x == ("l", "."))
            tag = "+".join(sorted(feats(t)))
            for lazy in ((False, True) if quant else (False,)):
                src = show(t, lazy)
                ltag = tag + (":lazy" if lazy else "")
                for fl in [""] + (["i"] if letters else []) + (["s"] if dot else []) + (["is", "si"] if dot else []):     # the two flags together (and /s with the nocase modifier below)
                    a = ast(t, "i" in fl, "s" in fl)
                    jobs.append(prog(pid(), src, a, "s", "", fl, ltag + (":/" + fl if fl else "")))
                    jobs.append(prog(pid(), src, a, "m", "", fl, ltag + (":/" + fl if fl else "")))
                if letters:
                    jobs.append(prog(pid(), src, ast(t, True, False), "s", "nocase", "", ltag + ":nocase"))
                if dot:
                    jobs.append(prog(pid(), src, ast(t, True, True), "s", "nocase", "s", ltag + ":/s+nocase"))
                jobs.append(prog(pid(), src, ast(t, False, False), "s", "fullword", "", ltag + ":fullword"))
                if not has(t, lambda x: x[0] == "l" and x[1] in ("\\W", "[^a]", ".", "\\b", "\\B")):
                    widej.append(prog(pid(), src, ast(t, False, False), "s", "wide", "", ltag + ":wide"))
                    widej.append(prog(pid(), src, ast(t, False, False), "s", "ascii wide", "", ltag + ":asciiwide"))
    for t in gen(4):
        tag = "+".join(sorted(feats(t)))
        jobs4.append(prog(pid(), show(t, False), ast(t, False, False), "s", "", "", tag))
        if not quick and has(t, lambda x: x[0] == "q"):
            jobs4.append(prog(pid(), show(t, True), ast(t, False, False), "s", "", "", tag + ":lazy"))
    if not quick:
        for t in gen(5):
            if has(t, lambda x: x[0] == "l" and x[1] not in ("a", "b", ".", "\\b", "$")): continue     # reduced leaf set at 5 nodes
            jobs4.append(prog(pid(), show(t, False), ast(t, False, False), "s", "", "", "+".join(sorted(feats(t)))))
    # family P (X){n,m} Q : atom before / after / inside counted repeats
    PQ = ["", "b", "bb", "bbbb"]
    XS = [("a", "B 61 ff 0"), ("ab", ". B 61 ff 0 B 62 ff 0"), ("a|b", "| B 61 ff 0 B 62 ff 0"), (".", cls_hex(set(range(256)) - {0x0a})),
          ("a|aa", "| B 61 ff 0 . B 61 ff 0 B 61 ff 0"), ("ab|a", "| . B 61 ff 0 B 62 ff 0 B 61 ff 0")]
    reps = [(a, b) for a in range(0, 6) for b in range(a, 6) if b > 0] + [(a, -1) for a in range(0, 6)]
    for P in PQ:
        for Q in PQ:
            for (xs, xa) in XS:
                for (a, b) in reps:
                    q = "{%d,%s}" % (a, "" if b < 0 else b) if a != b else "{%d}" % a
                    for lazy in (False, True):
                        src = P + "(" + xs + ")" + q + ("?" if lazy else "") + Q
                        parts = ["B 62 ff 0"] * len(P) + ["R %d %d %s" % (a, b, xa)] + ["B 62 ff 0"] * len(Q)
                        astp = parts[0] if len(parts) == 1 else " ".join(". " + p for p in parts[:-1]) + " " + parts[-1]
                        tag = "family-counted-repeat" + (":lazy" if lazy else "")
                        fam.append(prog(pid(), src, astp, "s", "", "", tag))
                        if not lazy:
                            fam.append(prog(pid(), src, astp, "m", "", "", tag))
    # family P X{n,m} Q Y{k,l} R : two counted repeats on one path (the VM keeps one repeat counter per fiber; `.{n,m}` has its own opcodes)
    XS2 = [(".", cls_hex(set(range(256)) - {0x0a})), ("a", "B 61 ff 0"), ("[ab]", cls_hex(set(b"ab")))]
    reps2 = [(1, 1), (2, 2), (3, 3), (0, 1), (1, 2), (0, 2), (2, 3), (1, -1)] + ([] if quick else [(1, 3), (2, 4), (0, -1)])
    for P in ("", "b"):
        for Q in ("", "b", "a"):
            for R in ("", "b"):
                if not (P or Q or R): continue
                for (xs, xa) in XS2:
                    for (ys, ya) in XS2:
                        for (a, b) in reps2:
                            for (c, d) in reps2:
                                for lazy in (False, True):
                                    qs = lambda lo, hi: ("{%d,%s}" % (lo, "" if hi < 0 else hi) if lo != hi else "{%d}" % lo) + ("?" if lazy else "")
                                    src = P + xs + qs(a, b) + Q + ys + qs(c, d) + R
                                    lit = lambda w: ["B %02x ff 0" % ord(ch) for ch in w]
                                    parts = lit(P) + ["R %d %d %s" % (a, b, xa)] + lit(Q) + ["R %d %d %s" % (c, d, ya)] + lit(R)
                                    astp = " ".join(". " + p_ for p_ in parts[:-1]) + " " + parts[-1]
                                    tag = "family-two-counted-repeats" + (":lazy" if lazy else "")
                                    if lazy and xs == "." and b < 0 and P and not Q and c == 0 and not R:
                                        # a lazy unbounded dot run after a prefix is a CHAINING point (re.c: yr_re_ast_split_at_chaining_point); here everything after it can match empty
                                        tag += ":tail-after-chaining-point-can-be-empty"
                                    fam.append(prog(pid(), src, astp, "s", "", "", tag))
                                    if not lazy and xs == "." and ys == ".":
                                        fam.append(prog(pid(), src, astp, "m", "", "", tag))
    # window family: fixed-length runs of 5..7 (8) one-character nodes {literal, '.', class} - longer than the 4-byte atom, so the atom extractor slides its
    # window, trims dots at its ends and must bind the atom to the right forward / backward code; also inside a group, an alternation branch and a counted repeat
    winj = []
    letters = "abcdefgh"
    for nn in ((5, 6, 7) if quick else (5, 6, 7, 8)):
        for mid in itertools.product("LDC", repeat=nn - 2):
            shape = "L" + "".join(mid) + "L"
            if shape.count("L") < 3: continue
            srcp, astp, inst = [], [], []
            for i, k in enumerate(shape):
                ch = letters[i]
                if k == "L": srcp.append(ch); astp.append("B %02x ff 0" % ord(ch)); inst.append(("L", ord(ch)))
                elif k == "D": srcp.append("."); astp.append(cls_hex(set(range(256)) - {0x0a})); inst.append(("D", 0))
                else: srcp.append("[%sz]" % ch); astp.append(cls_hex({ord(ch), ord("z")})); inst.append(("C", ord(ch)))
            def make(fill):
                return bytes(b if k == "L" else fill if k == "D" else (b if fill & 1 else ord("z")) for k, b in inst)
            bufs = set()
            base = [make(ord("x")), make(ord("a")), make(0x0a), make(0x00)]
            for v in base:
                for pre in (b"", b"-", b"ab"):
                    for post in (b"", b"a"):
                        bufs.add(pre + v + post)
                bufs.add(v + v); bufs.add(v[:-1] + v); bufs.add(v[:3] + v)
            v = base[0]
            for i, (k, b) in enumerate(inst):
                if k != "D": bufs.add(b"-" + v[:i] + bytes([b ^ 0x04]) + v[i + 1:] + b"a")
            bl = "B list " + " ".join(x.hex() for x in sorted(bufs))
            body_src, body_ast = "".join(srcp), " ".join(". " + a for a in astp[:-1]) + " " + astp[-1]
            variants = [(body_src, body_ast, "")]
            if nn <= 6:
                variants += [("(" + body_src + ")", body_ast, ":group"), ("(" + body_src + "|qqqq)", "| " + body_ast + " . B 71 ff 0 . B 71 ff 0 . B 71 ff 0 B 71 ff 0", ":alt"),
                             ("-(" + body_src + "){1,2}", ". B 2d ff 0 R 1 2 " + body_ast, ":repeat")]
            for (src, a, vt) in variants:
                pr = prog(pid(), src, a, "s", "", "", "window-family" + vt)
                winj.append(pr + (bl,))
    # group-repeat family: P ( X q1 Y | Y X q1 ) q2 Q - a quantified group whose first / last element is itself quantified: the jump back of the outer
    # repeat has to land on the first instruction of the inner one (its split / repeat_start), forwards and - for atoms after the group - backwards
    grpj = []
    Q1 = [("?", 0, 1), ("*", 0, -1), ("+", 1, -1), ("{0,1}", 0, 1), ("{1,2}", 1, 2), ("{2,3}", 2, 3), ("{0,2}", 0, 2), ("{2}", 2, 2), ("{1,}", 1, -1)]
    Q2 = [("+", 1, -1), ("*", 0, -1), ("{1,3}", 1, 3), ("{2}", 2, 2), ("{2,}", 2, -1), ("?", 0, 1)]
    A_, B_ = "B 61 ff 0", "B 62 ff 0"
    for P in ("", "x"):
        for Qs in ("", "c"):
            if not P and not Qs: continue
            for (q1, lo1, hi1) in (Q1 if not quick else Q1[:7]):
                for (q2, lo2, hi2) in (Q2 if not quick else Q2[:4]):
                    for order in ("XY", "YX", "X"):
                        for lazy in (False, True):
                            z = "?" if lazy else ""
                            inner_src = {"XY": "a" + q1 + z + "b", "YX": "ba" + q1 + z, "X": "a" + q1 + z}[order]
                            ra = "R %d %d %s" % (lo1, hi1, A_)
                            inner_ast = {"XY": ". " + ra + " " + B_, "YX": ". " + B_ + " " + ra, "X": ra}[order]
                            src = P + "(" + inner_src + ")" + q2 + z + Qs
                            parts = (["B 78 ff 0"] if P else []) + ["R %d %d %s" % (lo2, hi2, inner_ast)] + (["B 63 ff 0"] if Qs else [])
                            astp = parts[0] if len(parts) == 1 else " ".join(". " + p_ for p_ in parts[:-1]) + " " + parts[-1]
                            tag = "family-group-repeat" + (":lazy" if lazy else "")
                            grpj.append(prog(pid(), src, astp, "s", "", "", tag))
                            if not lazy:
                                grpj.append(prog(pid(), src, astp, "m", "", "", tag))
    words = [bytes(t) for n in range(0, (7 if quick else 8) + 1) for t in itertools.product(b"ab", repeat=n)]
    sp_grp = ["B list " + " ".join((pre + w + post).hex() for w in words for (pre, post) in ((b"x", b"c"), (b"x", b""), (b"", b"c"), (b"ax", b"cb")))]
    # class-range family: classes whose ranges end at the first / last letter (and their neighbours @ [ ` {), negated, with and without case folding
    # (/i, nocase, matches /i), against EVERY byte value in the class position: k<class>m on the 256 buffers k?m (+ framed)
    clsj = []
    def rng(a, b): return set(range(ord(a), ord(b) + 1))
    CLS = [("[a-z]", rng("a", "z"), False), ("[y-z]", rng("y", "z"), False), ("[A-Z]", rng("A", "Z"), False), ("[A-B]", rng("A", "B"), False), ("[^z]", {ord("z")}, True), ("[^A]", {ord("A")}, True),
           ("[^a-y]", rng("a", "y"), True), ("[x-z0-1]", rng("x", "z") | rng("0", "1"), False), ("[Z-a]", rng("Z", "a"), False), ("[@-[]", rng("@", "["), False), ("[`-{]", rng("`", "{"), False),
           ("[\\x7f-\\xff]", set(range(0x7f, 0x100)), False), ("[\\x00-\\x20]", set(range(0, 0x21)), False)]
    def fold(st):
        return st | {c ^ 0x20 for c in st if chr(c).isalpha() and c < 128}
    CLS += [(".", {0x0a}, True)]                     # the dot: everything but the line feed (with /s: everything)
    for (csrc, cset, neg) in CLS:
        for icase in (False, True):
            st = fold(cset) if icase else cset
            ast_c = cls_hex(st, neg)
            K = "B 6b ff 0" if not icase else cls_hex({ord("k"), ord("K")})
            M = "B 6d ff 0" if not icase else cls_hex({ord("m"), ord("M")})
            astp = ". %s . %s %s" % (K, ast_c, M)
            src = "k" + csrc + "m"
            if not icase:
                # the same class INSIDE a four-byte atom (ab<class>d, a<class>cd) and right after / before one (abcd<class>, <class>abcd): wildcard atoms are expanded over all byte values
                for (pre, post) in (("ab", "d"), ("a", "cd"), ("abcd", ""), ("", "abcd")):
                    parts = ["B %02x ff 0" % ord(ch) for ch in pre] + [ast_c] + ["B %02x ff 0" % ord(ch) for ch in post]
                    a2 = " ".join(". " + p_ for p_ in parts[:-1]) + " " + parts[-1]
                    clsj.append(prog(pid(), pre + csrc + post, a2, "s", "", "", "class-range:in-atom"))
                if csrc == ".":
                    a3 = ". B 61 ff 0 . B 62 ff 0 . %s B 64 ff 0" % cls_hex(set(range(256)))
                    clsj.append(prog(pid(), "ab.d", a3, "s", "", "s", "class-range:in-atom:/s"))
            if icase:
                clsj.append(prog(pid(), src, astp, "s", "", "i", "class-range:/i"))
                clsj.append(prog(pid(), src, astp, "s", "nocase", "", "class-range:nocase"))
                clsj.append(prog(pid(), src, astp, "m", "", "i", "class-range:/i"))
            else:
                clsj.append(prog(pid(), src, astp, "s", "", "", "class-range"))
                clsj.append(prog(pid(), src, astp, "m", "", "", "class-range"))
    sp_cls = ["B list " + " ".join((pre + bytes([c]) + post).hex() for c in range(256) for (pre, post) in ((b"k", b"m"), (b"K", b"M"), (b"-k", b"m-"), (b"ab", b"d"), (b"a", b"cd"), (b"abcd", b""), (b"", b"abcd"), (b"-ab", b"d-")))]
    lb = 5 if quick else 6
    sp_main = ["B all %s %d" % (ALPHA.hex(), lb)]
    sp4 = ["B all %s %d" % (ALPHA.hex(), 4 if quick else 5)]
    sp_fam = ["B all 6162 %d" % (10 if quick else 12)]
    sp_wide = ["B units %s %d %s %s" % ("".join("%02x00" % c for c in ALPHA) + "6161", 3 if quick else 4, "61", "61")]
    chunks = [("plain", sp_main, c) for c in yv.chunked(jobs, 100)] + [("plain", sp4, c) for c in yv.chunked(jobs4, 300)]
    chunks += [("plain", sp_fam, c) for c in yv.chunked(fam, 100)] + [("plain", sp_wide, c) for c in yv.chunked(widej, 100)]
    chunks += [("plain", [], c) for c in yv.chunked(winj, 100)]
    chunks += [("plain", sp_grp, c) for c in yv.chunked(grpj, 60)]
    chunks += [("plain", sp_cls, c) for c in yv.chunked(clsj, 20)]
    if quick:
        chunks += [("asan", ["B all %s 4" % ALPHA.hex()], c) for c in yv.chunked(jobs[::5], 200)]
    for v in ("plain", "asan"): yv.space_exe(v)
    progs = nontriv = limited = 0
    rejected = {}
    for res in yv.pmap(run_chunk, chunks, ck, prebuild=()):
        for (pid_, src, tag, variant, r) in res:
            progs += 1
            if "crash" in r:
                ck.violation("C03:crash:" + tag, dict(regex=src, rc=r["crash"], stderr=r["stderr"])); continue
            if "cerr" in r:
                rejected[r["cerr"].split(":")[-1].strip()[:60]] = rejected.get(r["cerr"].split(":")[-1].strip()[:60], 0) + 1
                continue
            ck.cov["evaluations"] += r["evals"]; nontriv += r["nontrivial"]
            if r["limit"]: limited += 1
            for v in r["viol"]:
                if v["what"] in ("zero-length-match-reported", "missed-fullword-where-another-length-is-no-full-word", "matches-operator-empty-match-at-end-of-operand"):
                    sig = "C03:" + v["what"]
                else:
                    sig = "C03:%s:%s" % (v["what"], tag)
                ck.violation(sig, dict(regex=src, buffer_hex=v["buffer"], reported=v["got"], expected=v["expected"], build=variant))
            if r["nontrivial"] and not r["viol"] and progs % 1499 == 0:
                ck.sample(dict(regex=src, buffers_scanned=r["evals"], buffers_with_expected_matches=r["nontrivial"], matches_checked=r["reported"]))
    ops = [bytes(t) for L in (1, 2, 3, 4) for t in itertools.product(b"ab\0", repeat=L)]
    mjobs = [(op, rx, fl) for op in ops for rx in MATCH_RES for fl in ("", "is")]
    nm = 0
    for viol, k in yv.pmap(matches_operand_chunk, yv.chunked(mjobs, 400), ck):
        nm += k; ck.cov["evaluations"] += k
        for sig, d in viol[:3]: ck.violation(sig, d)
    ck.sub("matches-operand-with-nul", operands=len(ops), regexps=len(MATCH_RES), evaluations=nm, reference="python re on bytes")
    ck.cov["distinct_nontrivial"] = nontriv
    ck.cov["programs"] = progs
    ck.cov["programs_hitting_fiber_limit"] = limited
    ck.cov["rejected_by_compiler"] = rejected
    ck.cov["rule"] = ("programs = all regex ASTs with <=3 nodes (x greedy/lazy x /i /s x nocase, fullword, wide, ascii wide, and as `matches` operand), all ASTs "
                      "with 4 nodes (greedy%s), the families P(X){n,m}Q, P X{n,m} Q Y{k,l} R and P(X q1 Y)q2 Q (quantified group starting / ending with a quantified element), the class-range family (13 classes at letter / byte-range borders x case folding x all 256 byte values), the window family (runs of 5..7 (8) one-character nodes {literal, dot, class}, plain / grouped / as alternation branch / counted, each with its own instance and near-miss buffers); inputs = every buffer over {a,b,A,\\n,space,1} with length <= %d (<=%d for 4 nodes), "
                      "{a,b}^<=10 for the family, 2-byte units for wide; non-trivial = (program, buffer) pairs with an expected match") % (
                          "" if quick else " and lazy; 5 nodes over a reduced leaf set", lb, 4 if quick else 5)
    ck.assumptions += ["a lazy expression that can also match the empty string may report length 0 at an offset that has a non-empty match",
                       "regexes rejected by the compiler are not cases (counts per message are in rejected_by_compiler)",
                       "wide regexes are explored without . \\W [^a] \\b \\B (their wide semantics are not documented)"]
    ck.finish()


if __name__ == "__main__":
    main()
