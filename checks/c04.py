#!/usr/bin/env python3
"""C04 - rule conditions evaluate per the documented language semantics.
Complete sub-spaces of the condition language (operator tables over boundary values in non-constant form, precedence pairs,
undefined placements, string queries, of / for..of / for..in forms, boolean composition, rule references and externals), each
rule compiled by the real compiler, run by the real VM over a fixed buffer set and compared with the independent evaluator
lib/refcond.py."""
import itertools, os, sys
sys.path.insert(0, os.path.join(os.path.dirname(os.path.abspath(__file__)), "..", "lib"))
import yv
from refcond import *

I63 = (1 << 63) - 1
VALS = [0, 1, 2, 3, -1, 63, 64, 255, I63, -I63, -(1 << 63), None]          # None = undefined
BUFS = [b"", b"zzzz", b"abcd", b"xxabcd", b"abcdabcdabcd", b"aXabcdYabcdab", b"\x01\x02\x03\x04\x05\x06\x07\x08\xff\xfe", b"abab", b"\x80\x00\x00\x00",
        b"ab" + b"." * 20 + b"abcd"]
STRINGS = {"a": b"abcd", "b": b"ab", "c": b"zz"}
STRDECL = 'strings: $a = "abcd" $b = "ab" $c = "zz"'


def nc(v):
    """non-constant integer operand with value v (a module function call the compiler cannot fold)"""
    if v is None: return UNDEF_I
    if v == -(1 << 63): return Raw("tests.isum(-9223372036854775807, -1)", lambda c: v)
    return Raw("tests.isum(%d, 0)" % v, lambda c, v=v: v)


def ncf(v):
    if v is None: return UNDEF_F
    return Raw("tests.fsum(%r, 0.0)" % float(v), lambda c, v=v: float(v))


def gen_optables():
    out = []
    for op in ("+", "-", "*", "\\", "%", "&", "|", "^", "<<", ">>", "==", "!=", "<", "<=", ">", ">="):
        for x in VALS:
            for y in VALS:
                e = Bin(op, nc(x), nc(y))
                if op in ("==", "!=", "<", "<=", ">", ">="):
                    out.append(("optable:cmp" + op, e))
                    out.append(("optable:cmp" + op + ":not", Un("not", e)))
                else:
                    # observe the integer result through three comparisons that pin it exactly where defined
                    ref = e.ev(Ctx())
                    if ref is UNDEF:
                        out.append(("optable:" + op + ":undefined", Un("defined", e)))
                        out.append(("optable:" + op + ":undefined", Bin("==", e, Int(0))))
                    else:
                        out.append(("optable:" + op, Bin("==", e, Int(ref))))
                        out.append(("optable:" + op, Un("defined", e)))
    for op in ("-", "~"):
        for x in VALS:
            e = Un(op, nc(x)); ref = e.ev(Ctx())
            out.append(("optable:unary" + op, Un("defined", e) if ref is UNDEF else Bin("==", e, Int(ref))))
    FV = [0.0, 1.5, -1.5, None]
    for op in ("+", "-", "*", "\\", "==", "!=", "<", "<=", ">", ">="):
        for x in FV:
            for y in FV:
                e = Bin(op, ncf(x), ncf(y))
                if op in ("==", "!=", "<", "<=", ">", ">="):
                    out.append(("optable:float" + op, e)); out.append(("optable:float" + op + ":not", Un("not", e)))
                    out.append(("optable:float" + op + ":defined", Un("defined", e)))
                else:
                    ref = e.ev(Ctx())
                    out.append(("optable:float" + op, Un("defined", e) if (ref is UNDEF or ref != ref or abs(ref) == float("inf")) else Bin("==", e, Flt(ref))))
        for x in FV:
            for y in (0, 2, -1, None):       # mixed float/int
                e = Bin(op, ncf(x), nc(y))
                if op in ("==", "!=", "<", "<=", ">", ">="):
                    out.append(("optable:mixed" + op, e))
                else:
                    ref = e.ev(Ctx())
                    out.append(("optable:mixed" + op, Un("defined", e) if (ref is UNDEF or ref != ref or abs(ref) == float("inf")) else Bin("==", e, Flt(ref))))
    SV = [b"", b"a", b"A", b"ab", b"b", None]
    def sv(i): return UNDEF_S if SV[i] is None else Raw("s%d" % i, lambda c, i=i: SV[i])
    for op in ("==", "!=", "<", "<=", ">", ">=", "contains", "icontains", "startswith", "istartswith", "endswith", "iendswith", "iequals"):
        for i in range(len(SV)):
            for j in range(len(SV)):
                e = Bin(op, sv(i), sv(j))
                out.append(("optable:str:" + op, e)); out.append(("optable:str:" + op + ":not", Un("not", e)))
    for i in range(len(SV)):
        for (rx, py) in (("a", b"a"), ("^a", b"^a"), ("b$", b"b$"), ("[ab]+", b"[ab]+"), ("^$", b"^$")):
            out.append(("optable:str:matches", Matches(sv(i), rx, py)))
    return out, [("s%d" % i, "s", SV[i]) for i in range(len(SV)) if SV[i] is not None]


def gen_precedence():
    out = []
    ops = ["+", "-", "*", "\\", "%", "&", "|", "^", "<<", ">>"]
    trip = [(7, 3, 2), (1, 2, 3), (-8, 3, 2), (64, 5, 1)]
    if THOROUGH:
        trip = list(itertools.product([0, 1, 2, 3, -1, 64, I63, -8], repeat=3))
    for o1 in ops:
        for o2 in ops:
            for (x, y, z) in trip:
                for shape in ("left", "right"):
                    # a tree whose *printing* needs no parentheses only if precedence/associativity are what the manual says
                    t = Bin(o2, Bin(o1, nc(x), nc(y)), nc(z)) if shape == "left" else Bin(o1, nc(x), Bin(o2, nc(y), nc(z)))
                    ref = t.ev(Ctx())
                    out.append(("precedence:%s,%s:%s" % (o1, o2, shape), Un("defined", t) if ref is UNDEF else Bin("==", t, Int(ref))))
                    # and the flat text x o1 y o2 z must parse as the table prescribes
                    flat = Raw("%s %s %s %s %s" % (nc(x).s(P_UNARY), o1, nc(y).s(P_UNARY), o2, nc(z).s(P_UNARY)), None)
                    p1, p2 = BINPREC[o1], BINPREC[o2]
                    tree = Bin(o2, Bin(o1, nc(x), nc(y)), nc(z)) if p1 >= p2 else Bin(o1, nc(x), Bin(o2, nc(y), nc(z)))
                    r2 = tree.ev(Ctx())
                    flat.fn = lambda c, r2=r2: r2
                    flat._p = min(p1, p2)
                    out.append(("precedence:flat:%s,%s" % (o1, o2), Un("defined", flat) if r2 is UNDEF else Bin("==", flat, Int(r2))))
    # unary vs binary, comparison vs arithmetic, not/defined/and/or
    for (x, y) in ((3, 2), (-3, 2), (0, 1)):
        for o in ops:
            for u in ("-", "~"):
                t = Bin(o, Un(u, nc(x)), nc(y)); ref = t.ev(Ctx())
                out.append(("precedence:unary%s,%s" % (u, o), Un("defined", t) if ref is UNDEF else Bin("==", t, Int(ref))))
                t = Un(u, Bin(o, nc(x), nc(y))); ref = t.ev(Ctx())
                out.append(("precedence:unary%s(%s)" % (u, o), Un("defined", t) if ref is UNDEF else Bin("==", t, Int(ref))))
    B = [TRUE, FALSE, Bin("==", UNDEF_I, Int(1)), Bin("<", nc(1), nc(2))]
    for a in B:
        for b in B:
            for c3 in B:
                out.append(("precedence:and,or", Bin("or", a, Bin("and", b, c3))))
                out.append(("precedence:and,or", Bin("and", Bin("or", a, b), c3)))
                out.append(("precedence:or,and", Bin("or", Bin("and", a, b), c3)))
                out.append(("precedence:not,and", Bin("and", Un("not", a), b)))
                out.append(("precedence:not(and)", Un("not", Bin("and", a, b))))
                out.append(("precedence:not,or", Bin("or", Un("not", a), b)))
                out.append(("precedence:defined,and", Bin("and", Un("defined", a), b)))
                out.append(("precedence:defined(or)", Un("defined", Bin("or", a, b))))
                out.append(("precedence:not-not", Un("not", Un("not", a))))
                out.append(("precedence:not-defined", Un("not", Un("defined", a))))
    for (x, y, z) in ((1, 2, 3), (3, 2, 1), (2, 2, 4)):
        for cmp_ in ("==", "!=", "<", "<=", ">", ">="):
            for o in ops:
                t = Bin(cmp_, Bin(o, nc(x), nc(y)), nc(z)); out.append(("precedence:%s,%s" % (o, cmp_), t))
                t = Bin(cmp_, nc(x), Bin(o, nc(y), nc(z))); out.append(("precedence:%s,%s" % (cmp_, o), t))
                out.append(("precedence:not,%s" % cmp_, Un("not", Bin(cmp_, nc(x), nc(y)))))
    return out


def gen_undefined():
    out = []
    U, D = UNDEF_I, nc(5)
    ops = ["+", "-", "*", "\\", "%", "&", "|", "^", "<<", ">>", "==", "!=", "<", "<=", ">", ">="]
    for op in ops:
        for (a, b) in ((U, D), (D, U), (U, U)):
            e = Bin(op, a, b)
            b_ = e if op in ("==", "!=", "<", "<=", ">", ">=") else Bin("==", e, Int(0))
            for wrapf, name in ((lambda x: x, "top"), (lambda x: Un("not", x), "not"), (lambda x: Un("defined", x), "defined"),
                                (lambda x: Bin("and", x, TRUE), "and-true"), (lambda x: Bin("or", x, TRUE), "or-true"),
                                (lambda x: Bin("or", x, FALSE), "or-false"), (lambda x: Bin("and", TRUE, Un("not", x)), "and-not"),
                                (lambda x: Un("not", Bin("or", x, FALSE)), "not-or"), (lambda x: Un("not", Un("defined", x)), "not-defined"),
                                (lambda x: Un("defined", Un("not", x)), "defined-not")):
                out.append(("undefined:%s:%s" % (op, name), wrapf(b_)))
    for rd in ("uint8", "int8", "uint16", "int16", "uint32", "int32", "uint8be", "int16be", "uint16be", "uint32be", "int32be"):
        for off in (0, 1, 2, 3, 4, 6, 7, 8, 9, 10, -1):
            for form in ("lit", "nc"):
                o = Int(off) if form == "lit" else nc(off)
                e = Read(rd, o)
                out.append(("reader:%s" % rd, Un("defined", e)))
                out.append(("reader:%s" % rd, Bin("==", e, Int(0x0201 if "16" in rd else 1))))
                out.append(("reader:%s:sign" % rd, Bin("<", e, Int(0))))
                out.append(("reader:%s:value" % rd, Bin("==", Bin("&", e, Int(0xff)), Int(0xff))))
        out.append(("reader:%s:filesize" % rd, Un("defined", Read(rd, Bin("-", FILESIZE, Int(1))))))
        out.append(("reader:%s:filesize" % rd, Un("defined", Read(rd, Bin("-", FILESIZE, Int(2))))))
        out.append(("reader:%s:filesize" % rd, Un("defined", Read(rd, Bin("-", FILESIZE, Int(4))))))
        out.append(("reader:%s:undef-offset" % rd, Un("defined", Read(rd, UNDEF_I))))
    return out


def border_exprs():
    return [Int(0), Int(1), Int(2), Int(3), Int(4), Int(6), Int(7), Int(8), Int(12), Int(13), nc(-1), FILESIZE, Bin("-", FILESIZE, Int(4)), UNDEF_I, nc(2), nc(6)]


def gen_stringq():
    out = []
    BE = border_exprs()
    for sid in ("a", "b", "c"):
        out.append(("strq:found", Found(sid))); out.append(("strq:found:not", Un("not", Found(sid))))
        for k in (0, 1, 2, 3, 4):
            out.append(("strq:count", Bin("==", Count(sid), Int(k))))
        for i in BE[:9] + [UNDEF_I, nc(1), nc(3)]:
            out.append(("strq:offset", Un("defined", Offset(sid, i))))
            out.append(("strq:length", Un("defined", Length(sid, i))))
            for v in (0, 2, 4, 6, 8):
                out.append(("strq:offset", Bin("==", Offset(sid, i), Int(v))))
            out.append(("strq:length", Bin("==", Length(sid, i), Int(len(STRINGS[sid])))))
        out.append(("strq:offset:noindex", Bin("==", Offset(sid), Int(2)))); out.append(("strq:length:noindex", Bin("==", Length(sid), Int(4))))
        for e in BE:
            out.append(("strq:at", At(sid, e))); out.append(("strq:at:not", Un("not", At(sid, e))))
        for lo in BE:
            for hi in BE:
                if isinstance(lo, Int) and isinstance(hi, Int) and lo.v > hi.v: continue     # constant lo > hi is a compile-time error (C12/C15 territory)
                out.append(("strq:in", In(sid, lo, hi)))
                out.append(("strq:count-in", Bin("==", CountIn(sid, lo, hi), Int(1))))
                out.append(("strq:count-in", Bin(">=", CountIn(sid, lo, hi), Int(2))))
    return out


def gen_constops():
    """every binary integer operator over a grid of small constants as the offset operand of `at`, of a range bound and of a reader: the compiler folds the
    constant (and uses the folded value as a fixed-offset hint for `at`), the VM computes it again - both must be the documented value"""
    out = []
    G = [0, 1, 2, 3, 4, 5, 6, 7, 8, 9, 12]
    for op in ("+", "-", "*", "\\", "%", "&", "|", "^", "<<", ">>"):
        for x in G:
            for y in G:
                if op in ("\\", "%") and y == 0: continue
                e = Bin(op, Int(x), Int(y))
                out.append(("constops:at:" + op, At("a", e)))
                out.append(("constops:at:" + op, At("b", e)))
                try: v = e.ev(Ctx())
                except Exception: v = None
                if isinstance(v, int) and 0 <= v <= 12:                  # a constant lower bound above the upper one (or negative) is rejected at compile time by design
                    out.append(("constops:in:" + op, In("a", e, Int(12))))
                out.append(("constops:read:" + op, Bin("==", Read("uint8", e), Int(0x61))))
    return out


def gen_atcombos():
    """two references to string offsets in one condition: `$x at K1` combined with another `at` on the same string, with `$ at K2` inside a for..of body (over a
    set that does or does not contain $x), with a non-constant offset; both operand orders: the compiler's per-string fixed-offset bookkeeping sees every pair"""
    out = []
    for sid1 in ("a", "b"):
        for K1 in (0, 2, 4, 22):
            first = At(sid1, Int(K1))
            others = [At(sid1, Int(K2)) for K2 in (0, 2, 7)] + [At(sid1, Bin("-", FILESIZE, Int(4)))]
            for sid2 in ("a", "b"):
                others += [ForOf("any", [sid2], "($%s)" % sid2, PH("$", at=Int(K2))) for K2 in (0, 2, 7)]
                others += [ForOf("any", [sid2], "($%s)" % sid2, PH("$", at=Bin("-", FILESIZE, Int(4))))]
            others += [ForOf("any", ["a", "b", "c"], "them", PH("$", at=Int(K2))) for K2 in (0, 2, 7)]
            for x in others:
                for op in ("and", "or"):
                    out.append(("atcombo:" + op, Bin(op, first, x)))
                    out.append(("atcombo:" + op, Bin(op, x, first)))
    return out


def gen_of():
    out = []
    sets = [("them", ["a", "b", "c"]), ("($a,$b)", ["a", "b"]), ("($a*)", ["a"]), ("($c,$a*)", ["c", "a"]), ("($*)", ["a", "b", "c"])]
    quants = ["all", "any", "none", Int(0), Int(1), Int(2), Int(3), ("%", Int(50)), ("%", Int(100)), ("%", Int(1)), nc(2), UNDEF_I, ("%", nc(50))]
    rng = [(Int(0), Int(3)), (Int(2), Int(6)), (Int(0), FILESIZE), (nc(5), Int(1)), (UNDEF_I, Int(5)), (Int(1), Int(1))]
    ats = [Int(0), Int(2), Int(4), nc(2), UNDEF_I]
    for (st, ids) in sets:
        for q in quants:
            out.append(("of:plain", Of(q, ids, st)))
            out.append(("of:plain:not", Un("not", Of(q, ids, st))))
            if isinstance(q, tuple):
                continue                       # the N% form exists only for plain `of`
            for r in rng: out.append(("of:in", Of(q, ids, st, rng=r)))
            for a in ats: out.append(("of:at", Of(q, ids, st, at=a)))
            bodies = [PH("$"), Bin(">", PH("#"), Int(1)), Bin("==", PH("@"), Int(2)), Bin("==", PH("!"), Int(4)), PH("$", at=Int(2)),
                      PH("$", rng=(Int(0), Int(3))), Bin("==", PH("@", Int(2)), Int(6)), Bin(">", PH("!", Int(1)), Int(2)),
                      Bin("and", PH("$"), Bin("<", PH("@"), Int(3))), Bin("or", Un("not", PH("$")), Bin("==", PH("#"), Int(2)))]
            for b in bodies:
                out.append(("for-of", ForOf(q, ids, st, b)))
    return out


def gen_forin():
    out = []
    quants = ["all", "any", "none", Int(0), Int(1), Int(2), nc(1), nc(0), UNDEF_I]
    i = Var("i"); j = Var("j"); k = Var("k"); l = Var("l")
    ranges = [(Int(0), Int(3)), (Int(1), Int(1)), (nc(3), Int(0)), (Int(0), Count("b")), (nc(0), nc(2)), (UNDEF_I, Int(2)), (Int(0), UNDEF_I),
              (nc(-2), Int(1)), (Int(0), Bin("-", FILESIZE, Int(1)))]
    bodies = [TRUE, FALSE, Bin("==", i, Int(1)), Bin("==", Read("uint8", i), Int(0x61)), At("a", i), Bin("==", Offset("b", i), Bin("*", Bin("-", i, Int(1)), Int(2))),
              Bin("<", i, Int(2)), Bin("==", Bin("%", i, Int(2)), Int(0)), Un("defined", Read("uint8", i)), Bin("==", UNDEF_I, i)]
    for q in quants:
        for (lo, hi) in ranges:
            for b in bodies:
                out.append(("for-in:range", ForIn(q, ["i"], ("range", lo, hi), b)))
        enums = [[Int(0)], [Int(1), Int(2), Int(3)], [Int(2), Int(2)], [nc(1), FILESIZE], [Int(0), UNDEF_I, Int(1)], [Count("a"), Count("b")]]
        for en in enums:
            for b in bodies[:8]:
                out.append(("for-in:enum", ForIn(q, ["i"], ("enum", en), b)))
        # module arrays / dictionaries
        ia = ("raw", "tests.integer_array", [0, 1, 2, 256])      # sparse array: items 0,1,2 and 256 are set
        out.append(("for-in:array", ForIn(q, ["i"], ia, Bin("<", i, Int(2)))))
        out.append(("for-in:array", ForIn(q, ["i"], ia, Bin("==", i, Int(256)))))
        sa = ("raw", "tests.string_array", [b"foo", b"bar", b"baz", b"foo\0bar"])
        s = Var("s")
        out.append(("for-in:array:str", ForIn(q, ["s"], sa, Bin("==", s, Str(b"bar")))))
        out.append(("for-in:array:str", ForIn(q, ["s"], sa, Bin("contains", s, Str(b"ba")))))
        sd = ("raw", "tests.string_dict", [(b"foo", b"foo"), (b"bar", b"bar")])
        kk, vv = Var("k"), Var("v")
        out.append(("for-in:dict", ForIn(q, ["k", "v"], sd, Bin("==", kk, vv))))
        out.append(("for-in:dict", ForIn(q, ["k", "v"], sd, Bin("==", kk, Str(b"foo")))))
        out.append(("for-in:empty", ForIn(q, ["x"], ("raw", "tests.empty_struct_array", []), TRUE)))
        out.append(("for-in:empty", ForIn(q, ["k", "v"], ("raw", "tests.empty_struct_dict", []), TRUE)))
        # text string sets
        out.append(("for-in:strset", ForIn(q, ["s"], ("enum", [Str(b"a"), Str(b"b")]), Bin("==", s, Str(b"a")))))
    # nesting 2..4 with inner bodies reading every enclosing variable
    R = lambda n: ("range", Int(0), Int(n))
    for q1 in ("all", "any", Int(2), "none"):
        for q2 in ("all", "any", Int(1)):
            out.append(("for-in:nest2", ForIn(q1, ["i"], R(2), ForIn(q2, ["j"], R(2), Bin("==", Bin("+", i, j), Int(2))))))
            out.append(("for-in:nest2", ForIn(q1, ["i"], R(2), ForIn(q2, ["j"], ("range", i, Int(2)), Bin("<=", i, j)))))
            out.append(("for-in:nest2:of", ForIn(q1, ["i"], R(3), Of(q2 if q2 != Int(1) else Int(1), ["a", "b"], "($a,$b)", at=Bin("*", i, Int(2))))))
            out.append(("for-in:nest3", ForIn(q1, ["i"], R(1), ForIn(q2, ["j"], R(1), ForIn("any", ["k"], R(2), Bin("==", Bin("+", Bin("+", i, j), k), Int(3)))))))
            out.append(("for-in:nest4", ForIn(q1, ["i"], R(1), ForIn(q2, ["j"], R(1), ForIn("any", ["k"], R(1), ForIn("all", ["l"], R(1),
                                        Bin("<=", Bin("+", Bin("+", Bin("+", i, j), k), l), Bin("+", Int(2), Bin("*", i, Bin("+", j, Bin("+", k, l)))))))))))
            out.append(("for-in:nest-forof", ForIn(q1, ["i"], R(2), ForOf(q2, ["a", "b"], "($a,$b)", PH("$", at=Bin("*", i, Int(2)))))))
    return out


def gen_compose():
    atoms = [TRUE, FALSE, Found("a"), Found("c"), Bin("==", Count("b"), Int(2)), At("a", Int(2)), In("b", Int(0), Int(1)), Bin("==", UNDEF_I, Int(1)),
             Un("defined", UNDEF_I), Bin("<", Offset("a", Int(2)), Int(7)), Of("any", ["a", "c"], "($a,$c)"), Bin(">", FILESIZE, Int(5)),
             Bin("==", Read("uint8", Int(0)), Int(0x61)), Bin("==", Read("uint16", Int(100)), Int(0)), ForIn("any", ["i"], ("range", Int(0), Int(3)), At("b", Var("i"))),
             Un("not", Found("b")), Bin("contains", Raw("s3", lambda c: b"ab"), Raw("s1", lambda c: b"a")), Bin("==", Length("a", Int(1)), Int(4)),
             Bin(">=", CountIn("b", Int(0), Int(4)), Int(2)), Un("not", Bin("==", UNDEF_I, Int(1)))]
    out = []
    for a in atoms:
        for b in atoms:
            out.append(("compose:and", Bin("and", a, b))); out.append(("compose:or", Bin("or", a, b)))
            out.append(("compose:not-and", Un("not", Bin("and", a, b)))); out.append(("compose:and-not", Bin("and", a, Un("not", b))))
            out.append(("compose:or-and", Bin("or", a, Bin("and", b, Un("not", a)))))
    if THOROUGH:
        for a in atoms:
            for b in atoms:
                for c3 in atoms[:12]:
                    out.append(("compose:and-or", Bin("and", a, Bin("or", b, c3)))); out.append(("compose:or-and3", Bin("or", Bin("and", a, b), c3)))
                    out.append(("compose:not-or-and", Un("not", Bin("or", a, Bin("and", b, Un("not", c3))))))
    ileaves = [Count("a"), Count("b"), Offset("a", Int(1)), Length("b", Int(1)), FILESIZE, Read("uint8", Int(1)), nc(3), UNDEF_I, Int(2), Offset("c", Int(1))]
    for x in ileaves:
        for y in ileaves:
            for op in ("+", "-", "*", "\\", "%", "&", "|", "<<"):
                e = Bin(op, x, y)
                out.append(("compose:int" + op, Bin("<", e, Int(7)))); out.append(("compose:int" + op, Un("defined", e)))
    return out


THOROUGH = False
SUBSPACES = [("optables", gen_optables), ("precedence", gen_precedence), ("undefined", gen_undefined), ("stringq", gen_stringq), ("constops", gen_constops), ("atcombos", gen_atcombos), ("of", gen_of),
             ("forin", gen_forin), ("compose", gen_compose)]
SV_EXT = [("s%d" % i, "s", v) for i, v in enumerate([b"", b"a", b"A", b"ab", b"b"])]


def strdecl(ids):
    """declare exactly the strings the condition references (unreferenced strings are a compile error)"""
    ids = ["a", "b", "c"] if "*" in ids else sorted(ids)
    return ("strings: " + " ".join('$%s = "%s"' % (i, STRINGS[i].decode()) for i in ids)) if ids else ""


def compile_cmds(rules_text):
    cmds = ["reset", "compiler 0"] + ["defc 0 %s s %s" % (n, yv.hx(v)) for (n, t, v) in SV_EXT]
    cmds += ["add 0 - " + yv.hx('import "tests"\n' + rules_text), "getrules 0 0", "cdestroy 0", "scanner 0 0"]
    return cmds


def run_chunk(chunk):
    """chunk: list of (idx, tag, src, expected verdict per buffer)"""
    w = yv.get_worker("plain")
    res = []
    def attempt(items):
        text = "\n".join("rule r%d { %s condition: %s }" % (idx, strdecl(ids), src) for (idx, tag, src, exp, ids) in items)
        cmds = compile_cmds(text)
        rep = w.batch(cmds + ["scan target=s0 via=mem ml=0 data=" + yv.hx(b) for b in BUFS] + ["scan target=s0 via=mem ml=0 flags=1 data=" + yv.hx(b) for b in BUFS])
        add = rep[len(cmds) - 4]
        if add["errors"]:
            return add, None
        verd = []
        for r in rep[len(cmds):]:
            verd.append({m[1].split(":")[1]: m[0] == "m" for m in r["t"] if m[0] in ("m", "n")} if r["rc"] == 0 else {"__rc": r["rc"]})
        return add, verd
    def handle(items):
        try:
            add, verd = attempt(items)
        except (yv.WorkerDied, yv.WorkerHang) as e:
            yv.drop_worker("plain")
            nonlocal w
            w = yv.get_worker("plain")
            if len(items) == 1:
                res.append((items[0], "crash", str(e) + getattr(e, "err", "")[-1500:])); return
            h = len(items) // 2; handle(items[:h]); handle(items[h:]); return
        if verd is None:
            if len(items) == 1:
                res.append((items[0], "cerr", add["msgs"][:2])); return
            h = len(items) // 2; handle(items[:h]); handle(items[h:]); return
        for it in items:
            got = [v.get("r%d" % it[0], v.get("__rc")) for v in verd]
            res.append((it, "ok", got))       # len(BUFS) normal-mode verdicts followed by len(BUFS) fast-mode verdicts
    handle(chunk)
    return res


RS_QUANTS = ["all", "any", "none", Int(0), Int(1), Int(2), Int(3), ("%", Int(1)), ("%", Int(34)), ("%", Int(50)), ("%", Int(67)), ("%", Int(100))]
RS_SETS = [("(a_*)", ["a_0", "a_1", "a_2"]), ("(a_0, a_2)", ["a_0", "a_2"]), ("(a_1, b_*)", ["a_1", "b_0", "b_1"]), ("(b_*, a_*)", ["b_0", "b_1", "a_0", "a_1", "a_2"]), ("(a_2)", ["a_2"])]
RS_NAMES = ["a_0", "a_1", "a_2", "b_0", "b_1"]


def ruleset_chunk(pad):
    """`Q of (<rule set>)` and plain rule references with the referenced rules at index pad.. of the compilation (the per-rule match bits live in 64-bit
    words: positions 0, 1, 31/32, 63/64 are the edges); the referenced rules read one byte each, so 32 buffers give every truth assignment"""
    from refcond import RulesOf, RuleRef
    w = yv.get_worker("plain")
    text = ["rule p%d { condition: %s }" % (i, "true" if i % 3 == 0 else "false") for i in range(pad)]
    text += ["rule %s { condition: uint8(%d) == 0x31 }" % (n, i) for i, n in enumerate(RS_NAMES)]
    probes = []
    for (st, names) in RS_SETS:
        for q in RS_QUANTS:
            probes.append(RulesOf(q, names, st)); probes.append(Un("not", RulesOf(q, names, st)))
    probes += [Bin("and", RuleRef("a_0"), Un("not", RuleRef("a_1"))), Bin("or", RuleRef("b_1"), RuleRef("a_2")), Un("defined", RuleRef("a_1")),
               Bin("and", RulesOf(Int(2), ["a_0", "a_1", "a_2"], "(a_*)"), RuleRef("b_0"))]
    text += ["rule q%d { condition: %s }" % (i, e.s()) for i, e in enumerate(probes)]
    bufs = [bytes(0x31 if (m >> i) & 1 else 0x30 for i in range(5)) for m in range(32)]
    cmds = ["reset", "compiler 0", "add 0 - " + yv.hx("\n".join(text)), "getrules 0 0", "cdestroy 0", "scanner 0 0"]
    rep = w.batch(cmds + ["scan target=s0 via=mem ml=0 data=" + yv.hx(b) for b in bufs])
    out = []
    if rep[2]["errors"]:
        return pad, [("C04:well-typed-condition-rejected:ruleset-of", dict(pad=pad, messages=rep[2]["msgs"][:2]))], 0
    n = 0
    for b, r in zip(bufs, rep[len(cmds):]):
        got = {m[1].split(":")[1]: m[0] == "m" for m in r["t"] if m[0] in ("m", "n")}
        truth = {nm: b[i] == 0x31 for i, nm in enumerate(RS_NAMES)}
        c = Ctx(b, {}, {}, rules=truth)
        for i, e in enumerate(probes):
            n += 1
            exp = verdict(e, c)
            if got.get("q%d" % i) != exp:
                out.append(("C04:verdict:ruleset-of:" + ("rule-index>=32" if pad + 5 > 32 else "rule-index<32"),
                            dict(condition=e.s(), rules_before=pad, truth=truth, expected=exp, observed=got.get("q%d" % i),
                                 replay="%d padding rules, then a_0..a_2, b_0, b_1 with `uint8(i) == 0x31`, then rule q { condition: %s } on buffer %s" % (pad, e.s(), b.hex()))))
                break
        for nm in RS_NAMES:
            if got.get(nm) != truth[nm]:
                out.append(("C04:verdict:ruleset-of:referenced-rule", dict(rule=nm, rules_before=pad, buffer=b.hex()))); break
    return pad, out, n


def ruleset_family(ck, quick):
    pads = [0, 1, 2, 7, 26, 27, 28, 29, 30, 31, 32, 33, 58, 59, 60, 61, 62, 63, 64, 65, 127] if quick else list(range(0, 200))
    n = 0
    for pad, viol, k in yv.pmap(ruleset_chunk, pads, ck):
        n += k
        for sig, d in viol: ck.violation(sig, d)
    ck.cov["evaluations"] += n
    ck.sub("ruleset-of", paddings=len(pads), evaluations=n, note="Q of (rule set) / rule references with the referenced rules at every position of the per-rule match bitmap words; 32 truth assignments each")
    return n


def main():
    ck = yv.Check("C04", "exploration")
    quick = ck.tier == "quick"
    global THOROUGH
    THOROUGH = not quick
    progs = []
    for name, g in SUBSPACES:
        r = g()
        items = r[0] if isinstance(r, tuple) else r
        for (tag, e) in items:
            progs.append((name, tag, e))
    # expected verdicts (reference) per buffer
    work = []
    seen_src = set()
    for idx, (name, tag, e) in enumerate(progs):
        src = e.s()
        if src in seen_src: continue
        seen_src.add(src)
        exp = []
        for b in BUFS:
            c = Ctx(b, STRINGS, {})
            exp.append(verdict(e, c))
        if has_undef_quant(e): tag = "undefined-quantifier"
        work.append((idx, tag, src, exp, sorted(sids_of(e))))
    if ck.seed:
        import random; random.Random(ck.seed).shuffle(work)
    batch = 24
    nontriv = 0
    sub = {}
    for res in yv.pmap(run_chunk, yv.chunked(work, batch), ck):
        for (it, status, got) in res:
            idx, tag, src, exp, ids = it
            name = tag.split(":")[0]
            d = sub.setdefault(name, dict(programs=0, evaluations=0, rejected=0))
            d["programs"] += 1
            if status == "crash":
                ck.violation("C04:crash:" + tag, dict(condition=src, error=got)); continue
            if status == "cerr":
                d["rejected"] += 1
                ck.violation("C04:well-typed-condition-rejected:" + tag, dict(condition=src, messages=got)); continue
            d["evaluations"] += 2 * len(BUFS)
            ck.cov["evaluations"] += 2 * len(BUFS)
            if len(set(exp)) > 1 or any(exp): nontriv += 1
            for k_, (b, e_, g_) in enumerate(zip(BUFS + BUFS, exp + exp, got)):
                if e_ != g_:
                    if k_ >= len(BUFS): tag += ":fast-mode"          # SCAN_FLAGS_FAST_MODE may drop matches only where no condition can tell
                    ck.violation("C04:verdict:" + tag, dict(condition=src, buffer_hex=b.hex(), expected=e_, observed=g_,
                                                            replay="rule r { %s condition: %s }  (import \"tests\"; externals s0..s4 = '', a, A, ab, b)" % (STRDECL, src)))
                    break
            else:
                if idx % 4001 == 0: ck.sample(dict(condition=src, verdicts_per_buffer=exp))
    ck.cov["subspaces"].update(sub)
    nontriv += ruleset_family(ck, quick) // 32
    ck.cov["distinct_nontrivial"] = nontriv
    ck.cov["programs"] = len(work)
    ck.cov["rule"] = ("programs = the union of 7 complete sub-spaces (operator tables over %d boundary values in non-constant form, precedence/associativity "
                      "pairs printed with minimal parentheses, undefined placements, intN readers at every border offset, string queries over border "
                      "expressions, of / for..of over quantifiers x sets x ranges, for..in over ranges/enumerations/module arrays+dictionaries with nesting "
                      "1..4, boolean/integer composition); each distinct condition text is one program, run on %d buffers; non-trivial = the reference "
                      "verdict is true on at least one buffer") % (len(VALS), len(BUFS))
    ck.assumptions += ["integer operands are produced by tests.isum()/fsum() calls so that the VM opcode, not the compile-time folder, computes the result",
                       "INT64_MIN \\ -1 and % -1 are taken as undefined (manual silent)"]
    ck.finish()


if __name__ == "__main__":
    main()
