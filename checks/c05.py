#!/usr/bin/env python3
"""C05 - a rule's result does not depend on what else is compiled with it.
 (a) twin oracle: every ordered sub-multiset (size <= 3) of a pool of rules built to share automaton structure, in one or two
     namespaces; each rule's full trace on a buffer set must equal its trace when compiled alone (+ the rules it references);
     rules sharing a namespace with an added global rule are excluded, as the statement says;
 (b) source distribution: every way of cutting a 4-rule namespace text into <= 3 add-source calls, and nested in-memory includes;
 (c) automaton sub-space with a reference oracle: every set of <= 3 distinct strings from {a,b}^3..5, one rule per string, in
     several orders, scanned over every buffer of {a,b}^<=10 and compared with a naive search (harness/space.c, command M)."""
import itertools, json, os, sys
sys.path.insert(0, os.path.join(os.path.dirname(os.path.abspath(__file__)), "..", "lib"))
import yv


def pool():
    P = []
    def add(name, body, imports=(), deps=(), glob=False, priv=False, wild=None):
        for d in deps: body = body.replace(d, "r_" + d)
        P.append(dict(name="r_" + name, body=body, imports=imports, deps=tuple("r_" + d for d in deps), glob=glob, priv=priv, wild=wild))
    add("abcd", 'strings: $a = "abcd" condition: $a')
    add("abcde", 'strings: $a = "abcde" condition: $a')
    add("bcde", 'strings: $a = "bcde" condition: $a')
    add("xabc", 'strings: $a = "xabc" condition: $a')
    add("bcd", 'strings: $a = "bcd" condition: #a >= 1')
    add("bcqq", 'strings: $a = "bcqq" condition: $a')
    add("dxyz", 'strings: $a = "dxyz" condition: $a')
    add("cdxy", 'strings: $a = "cdxy" condition: $a')
    add("abcdhex", 'strings: $a = { 61 62 63 64 } condition: $a')
    add("abcdre", 'strings: $a = /abcd/ condition: $a')
    add("nocase", 'strings: $a = "ABCD" nocase condition: $a')
    add("wide", 'strings: $a = "abcd" wide ascii condition: $a')
    add("hexwild", 'strings: $a = { 62 63 ?? 65 } condition: $a')
    add("rezero", 'strings: $a = /b.{0,3}e/ condition: $a')
    add("chain", 'strings: $a = { 61 62 63 64 [202-205] 64 78 79 7a } condition: $a')
    add("two", 'strings: $a = "abcd" $b = "dxyz" condition: $a and $b')
    add("count", 'strings: $a = "bc" condition: #a == 2')
    add("at", 'strings: $a = "abcd" condition: $a at 1')
    add("fullword", 'strings: $a = "abcd" fullword condition: $a')
    add("xor", 'strings: $a = "abcd" xor condition: $a')
    add("tests", 'condition: tests.constants.one == 1', imports=("tests",))
    add("math", 'condition: math.mean(0, filesize) > 90.0', imports=("math",))
    add("pe", 'condition: pe.number_of_sections == 1', imports=("pe",))
    add("fsize", 'condition: filesize > 8')
    add("glob_true", 'condition: filesize >= 0', glob=True)
    add("glob_false", 'condition: filesize > 100000', glob=True)
    add("priv", 'strings: $a = "bcde" condition: $a', priv=True)
    add("ref_abcd", 'condition: abcd and filesize > 4', deps=("abcd",))
    add("ref_priv", 'condition: priv or fsize', deps=("priv", "fsize"))
    add("re_dot4", 'strings: $a = /ab.{4}cd/ condition: $a')            # bounded dot repeats: the regexp VM's fibers are pooled per scanner and recycled across strings
    add("re_rng", 'strings: $a = /ef.{1,6}gh/ condition: $a')
    add("re_dot2", 'strings: $a = /xy.{2}zw/ condition: $a')
    add("ofset", 'strings: $a1 = "abcd" $a2 = "qq" $b = "yz" condition: 2 of ($a*, $b)')
    # wildcard rule sets: only rules of ITS namespace defined before it count (prefix used by no other pool rule, so the set of referenced rules is the declared deps)
    add("pk_a", 'strings: $a = "abcde" condition: $a')
    add("pk_b", 'strings: $a = "bcqq" condition: $a')
    add("ruleset_any", 'condition: any of (r_pk_*)', deps=("pk_a",), wild="r_pk_")
    add("ruleset_none", 'condition: none of (r_pk_*) and filesize > 0', deps=("pk_b",), wild="r_pk_")
    add("loop", 'strings: $a = "bc" condition: for any i in (1..#a) : (@a[i] > 3)')
    add("anon", 'strings: $ = "abcd" $ = "cdxy" condition: any of them')
    return P


def buffers():
    return [b"", b"abcd", b"abcde", b"xabcde", b"abcdxyz", b"xabcdxyz", b"bcqq abcdxyz", b"abcbcqq", b"abcdabcd", b" abcd ", b"zabcdz", b"ABCD aBcD", b"a\0b\0c\0d\0",
            b"bc bc bcd", b"bcXe b123e be", b"abcd" + b"." * 203 + b"dxyz", b"abcd" + b"." * 206 + b"dxyz", bytes(c ^ 0x33 for c in b"--abcd--"), yv.blob("PE32_FILE"), b"cdxyabcqq yz qq",
            b"abcabcdabcde", b"bcdebcqqdxyz", b"xabcqq", b"dxyabcdxyz", b"ab\n xy12zw", b"ef1\n xy1zw", b"ab12\n34cd ef1\n xy12zw xy1zw", b"xy12zw ab\n"]


def rule_src(r, name=None):
    mods = ("global " if r["glob"] else "") + ("private " if r["priv"] else "")
    return "%srule %s { %s }" % (mods, name or r["name"], r["body"])


def compile_and_trace(w, adds, bufs, inc=0, incfiles=()):
    """adds: list of (ns, text). returns (error, {rulefullname: [per-buffer message json]}, rc list)"""
    cmds = ["reset", "incclear"] + ["incfile %s %s" % (n, yv.hx(t)) for n, t in incfiles] + ["compiler 0 inc=%d" % inc]
    cmds += ["add 0 %s %s" % (ns, yv.hx(t)) for ns, t in adds] + ["getrules 0 0", "cdestroy 0", "scanner 0 0"]
    k = len(cmds)
    rep = w.batch(cmds + ["scan target=s0 via=mem data=" + yv.hx(b) for b in bufs])
    adds_r = [r for r in rep if "errors" in r]
    if any(a["errors"] for a in adds_r):
        return [a["msgs"][:2] for a in adds_r if a["errors"]], None, None
    tr, rcs = {}, []
    for r in rep[k:]:
        rcs.append(r["rc"])
        for m in r["t"]:
            if m[0] in ("m", "n"):
                tr.setdefault(m[1], []).append(json.dumps(m))
        # rules not reported in this scan (private) get no entry: pad
    return None, tr, rcs


_alone = {}
def alone_trace(w, P, idx, ns, bufs):
    key = (idx, ns)
    if key in _alone: return _alone[key]
    byname = {r["name"]: r for r in P}
    r = P[idx]
    parts = [byname[d] for d in r["deps"]] + [r]
    head = "".join('import "%s"\n' % i for p in parts for i in p["imports"])
    err, tr, rcs = compile_and_trace(w, [(ns, head + "\n".join(rule_src(p) for p in parts))], bufs)
    assert err is None, (r["name"], err)
    _alone[key] = (tr.get("%s:%s" % ("default" if ns == "-" else ns, r["name"])), rcs)
    return _alone[key]


def run_chunk(arg):
    kind, items = arg
    w = yv.get_worker("plain")
    P = pool(); bufs = buffers()
    byname = {r["name"]: r for r in P}
    out = []
    for (idxs, nsmode) in items:
        nss = ["-" if nsmode == 0 else ("n1" if j % 2 == 0 else "n2") for j in range(len(idxs))]
        names = []
        adds = []
        seen = {}
        for j, i in enumerate(idxs):
            r = P[i]
            nm = r["name"] if (i, nss[j]) not in seen else "%s_dup%d" % (r["name"], j)     # the same rule twice: second copy renamed
            seen[(i, nss[j])] = 1
            names.append(nm)
            head = "".join('import "%s"\n' % im for im in r["imports"])
            adds.append((nss[j], head + rule_src(r, nm)))
        err, tr, rcs = compile_and_trace(w, adds, bufs)
        label = "+".join("%s@%s" % (P[i]["name"], n) for i, n in zip(idxs, nss))
        if err is not None:
            if "wildcard rule set" in json.dumps(err):          # a rule matching an earlier wildcard rule set in its namespace is a documented compile error
                out.append((label, None, None)); continue
            out.append((label, "C05:set-does-not-compile", dict(errors=err, label=label))); continue
        globs_in_ns = {}
        for j, i in enumerate(idxs):
            if P[i]["glob"]: globs_in_ns.setdefault(nss[j], []).append(j)
        bad = None
        for j, i in enumerate(idxs):
            r = P[i]
            if r["priv"]: continue
            if any(g != j for g in globs_in_ns.get(nss[j], [])): continue          # a global rule was added to its namespace: excluded by the statement
            if names[j] != r["name"]: continue
            if r["wild"] and any(names[q].startswith(r["wild"]) and nss[q] == nss[j] and P[idxs[q]]["name"] not in r["deps"] for q in range(j)):
                continue                                                       # the wildcard references that rule: excluded by the statement
            exp, erc = alone_trace(w, P, i, nss[j], bufs)
            got = tr.get("%s:%s" % ("default" if nss[j] == "-" else nss[j], names[j]))
            if got != exp:
                bi = [k for k, (a, b) in enumerate(zip(got or [], exp or [])) if a != b]
                bad = ("C05:result-depends-on-company:rule=%s" % r["name"], dict(rule=r["name"], company=label, buffer_hex=bufs[bi[0]].hex() if bi else None,
                                                                              alone=exp[bi[0]] if bi else exp, together=got[bi[0]] if bi else got))
                break
        out.append((label, bad[0] if bad else None, bad[1] if bad else None))
    return out


def position_chunk(items):
    """(d) a target rule after N filler rules: its rule index, the indexes of its strings and (two namespaces) its namespace index cross the byte and 64-bit
    word boundaries of the scanner's per-rule / per-string / per-namespace bitmaps"""
    w = yv.get_worker("plain")
    P = pool(); bufs = buffers()
    byname = {r["name"]: r for r in P}
    out = []
    for (tname, N, fkind, nsmode) in items:
        r = byname[tname]
        parts = [byname[d] for d in r["deps"]] + [r]
        head = "".join('import "%s"\n' % i for p_ in parts for i in p_["imports"])
        def filler(i):
            if fkind == "nostrings": return "rule fill%d { condition: filesize == %d }" % (i, 100000 + i)
            if fkind == "one-string": return 'rule fill%d { strings: $f = "fill%04dq" condition: $f }' % (i, i)
            if fkind == "private": return 'private rule fill%d { strings: $f = "fill%04dq" $g = "gill%04dq" condition: $f or $g }' % (i, i, i)
            return 'rule fill%d { strings: $f = "fill%04dq" $g = { 66 69 %02x %02x [2-4] 71 } $h = /hil%04dq+/ condition: any of them }' % (i, i, i & 0xff, (i >> 8) & 0xff, i)
        fill = "\n".join(filler(i) for i in range(N))
        tns = "-" if nsmode == "one" else "n2"
        adds = [("-" if nsmode == "one" else "n1", fill)] if N else []
        adds.append((tns, head + "\n".join(rule_src(p_) for p_ in parts)))
        label = "%s after %d %s fillers (%s namespace)" % (tname, N, fkind, nsmode)
        err, tr, rcs = compile_and_trace(w, adds, bufs)
        if err is not None:
            out.append((label, "C05:set-does-not-compile", dict(errors=err, label=label))); continue
        exp, erc = alone_trace(w, P, [x["name"] for x in P].index(tname), tns, bufs)
        got = tr.get("%s:%s" % ("default" if tns == "-" else tns, tname))
        if r["priv"]: out.append((label, None, None)); continue
        if got != exp or rcs != erc:
            bi = [k for k, (a, b) in enumerate(zip(got or [], exp or [])) if a != b]
            out.append((label, "C05:result-depends-on-position:rule=%s:%s" % (tname, fkind), dict(rule=tname, fillers=N, filler_kind=fkind, namespaces=nsmode, buffer_hex=bufs[bi[0]].hex() if bi else None,
                                                                                              alone=exp[bi[0]] if bi else exp, together=got[bi[0]] if bi else got, rcs=[rcs, erc])))
        else:
            out.append((label, None, None))
    return out


LIMIT_POOL = [("two", 'strings: $a = "abcd" $b = "dxyz" condition: $a and $b'), ("ofset", 'strings: $a1 = "abcd" $a2 = "qq" $b = "yz" condition: 2 of ($a*, $b)'),
              ("anon", 'strings: $ = "abcd" $ = "cdxy" condition: any of them'), ("abcd", 'strings: $a = "abcd" condition: #a == 2'), ("loop", 'strings: $a = "bc" condition: for any i in (1..#a) : (@a[i] > 3)'),
              ("nostr", 'condition: filesize > 8'), ("noisy1", 'strings: $q = "q" condition: #q > 2'), ("noisy2", 'strings: $p = "zz" $q = "q" condition: $q or $p'),
              ("noisy3", 'strings: $r = /q[qr]/ condition: $r')]
LIMIT_BUFS = [b"abcd dxyz yz qq " + b"q" * 12 + b" abcd dxyz bc bc yz cdxy", b"q" * 9 + b"abcd dxyz yz abcd", b"abcd dxyz yz bc bc", b"zz " + b"qr" * 10 + b" abcd cdxy dxyz"]
_alone_small = {}
def limit_chunk(items):
    """(e) company that exceeds the per-string match limit (build with the limit scaled to 8, callback answers CONTINUE): the bookkeeping of the overflowing
    string must not touch the strings of other rules"""
    w = yv.get_worker("small")
    out = []
    D = dict(LIMIT_POOL)
    for names in items:
        adds = [("-", "\n".join("rule r_%s { %s }" % (n, D[n]) for n in names))]
        err, tr, rcs = compile_and_trace(w, adds, LIMIT_BUFS)
        label = "+".join(names)
        if err is not None:
            out.append((label, "C05:set-does-not-compile", dict(errors=err, label=label))); continue
        bad = None
        for n in names:
            if n not in _alone_small:
                e2, t2, r2 = compile_and_trace(w, [("-", "rule r_%s { %s }" % (n, D[n]))], LIMIT_BUFS)
                _alone_small[n] = t2.get("default:r_" + n)
            got = tr.get("default:r_" + n)
            if got != _alone_small[n]:
                bi = [k for k, (a, b) in enumerate(zip(got or [], _alone_small[n] or [])) if a != b]
                bad = ("C05:result-depends-on-company:match-limit-of-another-rule:rule=%s" % n, dict(rule=n, company=label, buffer_hex=LIMIT_BUFS[bi[0]].hex() if bi else None,
                                                                                                   alone=_alone_small[n][bi[0]] if bi else None, together=got[bi[0]] if bi else got))
                break
        out.append((label, bad[0] if bad else None, bad[1] if bad else None))
    return out


def keytable_family(ck):
    """(f) wide sets whose members differ only in data that ends up as a BINARY key of an internal table (the compiler's literal pool: string bytes that start with
    the same bytes / contain NUL; the hash module's per-scan digest cache: (offset, length) pairs): each rule's verdict is computed independently (hashlib / naive search)"""
    import hashlib, zlib
    w = yv.get_worker("plain")
    n = 0
    bufs = [bytes((i * 7 + 3) & 0xff for i in range(64)), b"abcdefgh" * 8, bytes(64)]
    rules, exp = [], {}
    for fn, ref in (("md5", lambda d: hashlib.md5(d).hexdigest()), ("sha1", lambda d: hashlib.sha1(d).hexdigest()), ("sha256", lambda d: hashlib.sha256(d).hexdigest())):
        for off in (0, 1, 256 - 250):
            for k in range(1, 41):
                name = "h_%s_%d_%d" % (fn, off, k)
                rules.append('rule %s { condition: hash.%s(%d, %d) == "%s" }' % (name, fn, off, k, ref(bufs[0][off:off + k])))
                exp[name] = [ref(b[off:off + k]) == ref(bufs[0][off:off + k]) for b in bufs]
    for order in (rules, rules[::-1]):
        err, tr, rcs = compile_and_trace(w, [("-", 'import "hash"\n' + "\n".join(order))], bufs)
        if err is not None:
            ck.violation("C05:set-does-not-compile:digest-cache-family", dict(errors=err)); break
        for name, e in exp.items():
            n += len(bufs)
            got = [json.loads(x)[0] == "m" for x in tr.get("default:" + name, [])]
            if got != e:
                ck.violation("C05:result-depends-on-company:digest-of-another-range", dict(rule=name, expected=e, together=got, note="alone the rule is true on the first buffer; among %d rules calling the same function on other ranges it is not" % len(rules)))
                break
    # literal pool: 1200 four-byte hex strings and 1200 text strings that all start with a NUL byte
    pats = [bytes([0, i >> 8, i & 0xff, 0x7f]) for i in range(1200)]
    present = [p_ for i, p_ in enumerate(pats) if i % 3 == 0]
    buf = b"\xff\xff".join(present) + b"\xff"
    for kind in ("hex", "text"):
        def decl(p_): return "{ %s }" % p_.hex() if kind == "hex" else '"%s"' % "".join("\\x%02x" % c for c in p_)
        for order in (list(range(1200)), list(range(1199, -1, -1))):
            src = "\n".join("rule z%d { strings: $a = %s condition: $a }" % (i, decl(pats[i])) for i in order)
            err, tr, rcs = compile_and_trace(w, [("-", src)], [buf])
            if err is not None:
                ck.violation("C05:set-does-not-compile:literal-pool-family", dict(errors=err)); break
            for i in range(1200):
                n += 1
                got = json.loads(tr["default:z%d" % i][0])[0] == "m"
                if got != (pats[i] in buf):
                    ck.violation("C05:result-depends-on-company:string-with-nul-prefix:%s" % kind, dict(rule="z%d" % i, string=decl(pats[i]), expected=pats[i] in buf, together=got,
                                                                                                     note="1200 strings of equal length that start with a NUL byte, compiled together"))
                    break
    yv.drop_worker("plain")
    ck.cov["evaluations"] += n
    ck.sub("table-keys", evaluations=n, note="360 digest rules (3 functions x 3 offsets x 40 lengths) and 2 x 1200 NUL-prefixed strings, both orders")


def distribution_cases():
    """a 4-rule namespace text cut at rule boundaries into <= 3 add calls; and nested includes"""
    P = {r["name"]: r for r in pool()}
    rules = [P["r_abcd"], P["r_bcde"], P["r_ref_abcd"], P["r_two"]]
    texts = [rule_src(r) for r in rules]
    cases = [("monolithic", [("-", "\n".join(texts))], 0, [])]
    for k in (2, 3):
        for cuts in itertools.combinations(range(1, 4), k - 1):
            b = (0,) + cuts + (4,)
            cases.append(("add-calls:%s" % (cuts,), [("-", "\n".join(texts[b[i]:b[i + 1]])) for i in range(k)], 0, []))
    cases.append(("include-flat", [("-", 'include "a.yar"\ninclude "b.yar"\n' + texts[2] + "\n" + texts[3])], 1, [("a.yar", texts[0]), ("b.yar", texts[1])]))
    cases.append(("include-nested", [("-", 'include "a.yar"\n' + texts[3])], 1, [("a.yar", texts[0] + '\ninclude "b.yar"\n' + texts[2]), ("b.yar", texts[1])]))
    cases.append(("include-nested2", [("-", 'include "a.yar"')], 1, [("a.yar", texts[0] + '\ninclude "b.yar"\n' + texts[3]), ("b.yar", texts[1] + '\ninclude "c.yar"'), ("c.yar", texts[2])]))
    cases.append(("include+add", [("-", 'include "a.yar"'), ("-", texts[2] + "\n" + texts[3])], 1, [("a.yar", texts[0] + "\n" + texts[1])]))
    return cases


_sp = {}
def auto_chunk(arg):
    spacecmd, items = arg
    key = (os.getpid(), spacecmd)
    sp = _sp.get(key)
    if sp is None:
        sp = yv.Space("plain"); sp.space(spacecmd); _sp[key] = sp
    out = []
    for n, strs in enumerate(items):
        rule = " ".join('rule r%d { strings: $a = "%s" condition: $a }' % (i, s) for i, s in enumerate(strs))
        try:
            r = sp.send("M a%d %s %d %s" % (n, yv.hx(rule), len(strs), " ".join(s.encode().hex() for s in strs)))
        except yv.WorkerDied as e:
            r = dict(crash=e.rc, stderr=e.err[-1500:]); sp.restart()
        out.append((strs, r))
    return out


def main():
    ck = yv.Check("C05", "exploration")
    quick = ck.tier == "quick"
    P = pool(); bufs = buffers()
    byname = {r["name"]: i for i, r in enumerate(P)}
    # ---- (b) source distribution
    w = yv.get_worker("plain")
    ref = None
    for (label, adds, inc, files) in distribution_cases():
        err, tr, rcs = compile_and_trace(w, adds, bufs, inc, files)
        ck.cov["evaluations"] += len(bufs)
        if err is not None:
            ck.violation("C05:distribution-does-not-compile:" + label.split(":")[0], dict(label=label, errors=err)); continue
        if ref is None: ref = (tr, rcs)
        elif (tr, rcs) != ref:
            ck.violation("C05:result-depends-on-source-distribution:" + label.split(":")[0], dict(label=label))
    ck.sub("source-distribution", cases=len(distribution_cases()))
    yv.drop_worker("plain")
    # ---- (a) twin oracle over the pool
    n = len(P)
    def ok(idxs):
        for pos, i in enumerate(idxs):
            for d in P[i]["deps"]:
                if byname[d] not in idxs[:pos]: return False
        return True
    sets = []
    sizes = (1, 2, 3) if quick else (1, 2, 3)
    for k in sizes:
        for idxs in itertools.product(range(n), repeat=k):
            if ok(idxs): sets.append(idxs)
    if not quick:
        import random
        core = [byname["r_" + x] for x in ("abcd", "abcde", "bcde", "xabc", "bcd", "bcqq", "dxyz", "cdxy", "abcdhex", "abcdre", "hexwild", "chain")]
        for idxs in itertools.permutations(core, 4):
            sets.append(idxs)
    def ok_ns(idxs):
        # with alternating namespaces a referenced rule must sit at an earlier position of the same parity
        for pos, i in enumerate(idxs):
            for d in P[i]["deps"]:
                if not any(idxs[q] == byname[d] for q in range(pos % 2, pos, 2)): return False
        return True
    items = [(s, 0) for s in sets] + [(s, 1) for s in sets if len(s) >= 2 and ok_ns(s) and (quick is False or len(s) == 2 or s[0] <= s[1])]
    nsets = 0
    for res in yv.pmap(run_chunk, [("twin", c) for c in yv.chunked(items, 60)], ck):
        for (label, sig, det) in res:
            nsets += 1
            ck.cov["evaluations"] += len(bufs)
            if sig: ck.violation(sig, det)
            elif nsets % 4999 == 0: ck.sample(dict(rule_set=label, buffers=len(bufs), outcome="every rule equals its solo trace"))
    ck.sub("twin", ordered_rule_sets=nsets, pool=len(P), buffers=len(bufs))
    # ---- (d) position family
    targets = [r["name"] for r in P if not r["glob"]][:: (3 if quick else 1)]
    Ns = (7, 8, 9, 63, 64, 65) if quick else (1, 7, 8, 9, 15, 16, 17, 31, 32, 33, 63, 64, 65, 127, 128, 129, 255, 256, 257)
    pitems = [(t, N, fk, nsm) for t in targets for N in Ns for fk in (("nostrings", "three-strings") if quick else ("nostrings", "one-string", "private", "three-strings")) for nsm in ("one", "two")]
    npos = 0
    for res in yv.pmap(position_chunk, yv.chunked(pitems, 12), ck):
        for (label, sig, det) in res:
            npos += 1; ck.cov["evaluations"] += len(bufs)
            if sig: ck.violation(sig, det)
    ck.sub("position", cases=npos, filler_counts=list(Ns), targets=len(targets))
    # ---- (e) company that exceeds the match limit
    names = [n for n, _ in LIMIT_POOL]
    litems = [list(t) for k in (2, 3) for t in itertools.permutations(names, k) if any(x.startswith("noisy") for x in t)]
    nlim = 0
    for res in yv.pmap(limit_chunk, yv.chunked(litems, 40), ck, prebuild=("small",)):
        for (label, sig, det) in res:
            nlim += 1; ck.cov["evaluations"] += len(LIMIT_BUFS)
            if sig: ck.violation(sig, det)
    ck.sub("match-limit-company", ordered_rule_sets=nlim, build="scaled limits (8 matches per string)")
    keytable_family(ck)
    # ---- (c) automaton sub-space
    strs = ["".join(t) for L in (3, 4, 5) for t in itertools.product("ab", repeat=L)]
    asets = [(s,) for s in strs]
    for a, b in itertools.permutations(strs, 2): asets.append((a, b))
    if quick:
        for c3 in itertools.combinations(strs, 3):
            asets.append(c3); asets.append(c3[::-1]); asets.append((c3[1], c3[2], c3[0]))
    else:
        for c3 in itertools.permutations(strs, 3): asets.append(c3)
        for c4 in itertools.combinations(strs, 4): asets.append(c4); asets.append(c4[::-1])
    nauto = ev = nontriv = 0
    spacecmd = "B all 6162 %d" % (10 if quick else 11)
    yv.space_exe("plain")
    for res in yv.pmap(auto_chunk, [(spacecmd, c) for c in yv.chunked(asets, 400)], ck, prebuild=()):
        for (s, r) in res:
            nauto += 1
            if "crash" in r: ck.violation("C05:automaton:crash", dict(strings=s, stderr=r["stderr"])); continue
            if "cerr" in r: ck.violation("C05:automaton:does-not-compile", dict(strings=s)); continue
            ev += r["evals"]; nontriv += r["nontrivial"]
            for v in r["viol"]:
                ck.violation("C05:automaton:rule-misses-or-adds-matches-in-company:size=%d" % len(s), dict(strings=s, buffer=bytes.fromhex(v["buffer"]).decode(), rule_index=v["rule"], reported_offsets=v["got"]))
    ck.cov["evaluations"] += ev
    ck.sub("automaton", ordered_string_sets=nauto, buffers_each=2047 if quick else 4095, evaluations=ev)
    ck.sample(dict(automaton_set=list(asets[5000]), buffers="{a,b}^<=10"))
    ck.cov["distinct_nontrivial"] = nsets + nontriv
    ck.cov["rule"] = ("(a) every ordered sub-multiset of size<=3 of a %d-rule pool (dependencies first), in one namespace and alternating over two, %d buffers: each rule's "
                      "message incl. match lists vs its solo compile; (b) 11 source distributions of a 4-rule namespace (add calls, nested includes); (c) every ordered "
                      "pair and every 3-subset (3 orders; thorough: all orders + 4-subsets) of the 56 strings of {a,b}^3..5, one rule per string, over all buffers of "
                      "{a,b}^<=10 vs a naive search; (e) every ordered pair / triple of a 9-rule pool containing a rule whose string exceeds the match limit (scaled build); (d) each pool rule after N filler rules of four kinds, N around 8 / 64 / 128 / 256, one or two namespaces; non-trivial = rule sets compared + (set, buffer) pairs with an expected match") % (len(P), len(bufs))
    ck.finish()


if __name__ == "__main__":
    main()
