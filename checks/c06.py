#!/usr/bin/env python3
"""C06 - scanning arbitrary bytes with any module is memory-safe and terminates.
Bounded exhaustive exploration = the complete 1-deviation neighbourhood (and a defined 2-closure in the thorough tier) of an
in-tree seed set over a boundary-value alphabet, scanned under ASan/UBSan with rules that call every module function:
  pass 1  truncation at every length
  pass 2  liveness: every byte position flipped once; L = positions whose flip changes any module output or the trace
  pass 3  every position of L (+ the first 256 bytes) replaced by each of {00,01,7f,80,ff,b^01,b+1}
  pass 4  every 16/32-bit little/big-endian field starting within 3 bytes of L replaced by boundary values, incl. file-size
          relative ones and (PE/ELF) virtual addresses that map to the last bytes of the file
  pass 5  (thorough) pairs of single deviations that each changed some module output
Oracle: no sanitizer report / signal, termination, live allocations back to the pre-scan level."""
import os, struct, sys
sys.path.insert(0, os.path.join(os.path.dirname(os.path.abspath(__file__)), "..", "lib"))
import yv

VAR = "asan"


def rules():
    calls = {
        "pe": ["pe.calculate_checksum() >= 0", 'pe.imphash() == "x"', 'pe.section_index(".text") >= 0', "pe.section_index(pe.entry_point) >= 0", 'pe.exports("a")', "pe.exports(/a/)", "pe.exports(1)",
               'pe.exports_index("a") >= 0', "pe.exports_index(1) >= 0", "pe.exports_index(/./) >= 0", 'pe.imports("kernel32.dll", "ExitProcess")', 'pe.imports("kernel32.dll", 1)', 'pe.imports("kernel32.dll") > 0',
               "pe.imports(/k/, /E/) > 0", 'pe.imports(pe.IMPORT_DELAYED, "a", "b")', 'pe.imports(pe.IMPORT_ANY, "a", 1)', 'pe.imports(pe.IMPORT_STANDARD, "a") > 0', "pe.imports(pe.IMPORT_ANY, /a/, /b/) > 0",
               'pe.import_rva("a", "b") > 0', 'pe.import_rva("a", 1) > 0', 'pe.delayed_import_rva("a", "b") > 0', 'pe.delayed_import_rva("a", 1) > 0', "pe.locale(0x0409)", "pe.language(0x09)", "pe.is_dll()",
               "pe.is_32bit()", "pe.is_64bit()", "pe.rva_to_offset(0) >= 0", "pe.rva_to_offset(pe.entry_point) >= 0", "pe.rva_to_offset(0x7fffffff) >= 0", "pe.rich_signature.version(1) > 0",
               "pe.rich_signature.toolid(1, 2) > 0", "pe.rich_signature.version(1, 2) > 0", "pe.rich_signature.toolid(1) > 0",
               "hash.md5(pe.sections[0].raw_data_offset, pe.sections[0].raw_data_size) != \"\"", "math.entropy(pe.overlay.offset, pe.overlay.size) >= 0.0", "uint32(pe.entry_point) >= 0",
               "for any s in pe.sections : (s.name == \".text\" and s.raw_data_size > 0)", "for any i in pe.import_details : (i.number_of_functions > 0)", "for any e in pe.export_details : (e.ordinal > 0)",
               "pe.number_of_signatures > 0 and pe.signatures[0].valid_on(0)", "for any r in pe.resources : (r.length > 0)", "pe.version_info[\"CompanyName\"] contains \"a\"", "pe.pdb_path contains \"a\"", "pe.dll_name contains \"a\""],
        "elf": ['elf.telfhash() != ""', 'elf.import_md5() != ""', "hash.sha1(elf.entry_point, 16) != \"\"", "for any s in elf.sections : (s.size > 0)", "for any s in elf.segments : (s.file_size > 0)",
                "for any s in elf.symtab : (s.size > 0)", "for any s in elf.dynsym : (s.name contains \"a\")", "for any d in elf.dynamic : (d.val > 0)", "elf.number_of_sections > 0", "math.entropy(elf.sh_offset, 64) >= 0.0"],
        "dotnet": ["dotnet.is_dotnet", "dotnet.number_of_streams > 0", "for any s in dotnet.streams : (s.size > 0)", "for any g in dotnet.guids : (g contains \"a\")", "for any r in dotnet.resources : (r.length > 0)",
                   "for any c in dotnet.classes : (c.number_of_methods > 0)", "dotnet.assembly.name contains \"a\"", "for any u in dotnet.user_strings : (u contains \"a\")", "dotnet.typelib contains \"a\"",
                   "for any m in dotnet.modulerefs : (m contains \"a\")", "for any a in dotnet.assembly_refs : (a.name contains \"a\")", "for any c in dotnet.constants : (c contains \"a\")"],
        "macho": ["macho.file_index_for_arch(7) >= 0", "macho.file_index_for_arch(7, 3) >= 0", "macho.entry_point_for_arch(7) >= 0", "macho.entry_point_for_arch(7, 3) >= 0", "for any s in macho.segments : (s.nsects > 0)",
                  "macho.number_of_segments > 0", "for any f in macho.file : (f.ncmds > 0)", "macho.nfat_arch > 0", "hash.md5(macho.entry_point, 8) != \"\""],
        "dex": ['dex.has_method("a")', 'dex.has_method("a", "b")', "dex.has_method(/a/)", "dex.has_method(/a/, /b/)", 'dex.has_class("a")', "dex.has_class(/a/)", "dex.number_of_fields > 0",
                "for any m in dex.method : (m.direct > 0)", "for any s in dex.string_ids : (s.size > 0)", "dex.header.file_size > 0", "for any c in dex.class_defs : (c.class_idx > 0)"],
        "misc": ["math.entropy(0, filesize) >= 0.0", "math.serial_correlation(0, filesize) >= 0.0", "math.monte_carlo_pi(0, filesize) >= 0.0", "math.mode(0, filesize) >= 0", 'hash.sha256(0, filesize) != ""',
                 "hash.crc32(0, filesize) >= 0", "hash.checksum32(filesize \\ 2, filesize) >= 0", 'string.to_int("12") == 12', "time.now() > 0", 'console.log("size ", filesize)', "console.hex(filesize)",
                 "math.to_string(filesize) != \"\"", "string.length(math.to_string(filesize, 16)) > 0"],
    }
    out = ['import "pe" import "elf" import "dotnet" import "macho" import "dex" import "math" import "hash" import "string" import "time" import "console"']
    n = 0
    for mod, cs in calls.items():
        for c in cs:
            out.append("rule %s_%d { condition: %s }" % (mod, n, c)); n += 1
    return "\n".join(out), n


def seeds(quick):
    R = yv.yvbuild.REPO
    S = []
    for b in ("PE32_FILE", "ELF32_FILE", "ELF64_FILE", "ELF32_NOSECTIONS", "ELF32_SHAREDOBJ", "ELF32_MIPS_FILE", "ELF_x64_FILE", "MACHO_X86_FILE", "MACHO_PPC_FILE", "MACHO_X86_OBJECT_FILE", "MACHO_X86_64_DYLIB_FILE", "DEX_FILE", "ISSUE_1006"):
        S.append((b, yv.blob(b)))
    for f in ("tiny-macho", "bad_dotnet_pe", "mtxex.dll", "weird_rich", "0ca09bde7602769120fadc4f7a4147347a7a97271370583586c9e587fd396171", "6c2abf4b80a87e63eee2996e5cea8f004d49ec0c1806080fa72e960529cba14c",
              "e3d45a2865818756068757d7e319258fef40dad54532ee4355b86bc129f27345", "c6f9709feccf42f2d9e22057182fe185f177fb9daaa2649b4669a24f2ee7e3ba_0h_410h"):
        S.append((f, open(os.path.join(R, "tests/data", f), "rb").read()))
    import dotnetgen, pegen
    S.append(("synthetic-pe", pegen.build()))              # imports, delayed imports, exports + forwarder, resource tree + version info, debug dir, rich signature, certificate, overlay (lib/pegen.py)
    S.append(("synthetic-dotnet", dotnetgen.build()))      # TypeSpec chains, generics, nested classes, signatures: one edit away from reference cycles (lib/dotnetgen.py)
    import elfgen
    S += elfgen.seeds(quick)                                 # ET_EXEC images whose program header table is the last thing in the file; variants with an entry-size field that differs from the real size (lib/elfgen.py)
    S += [("empty", b""), ("one-byte", b"M"), ("MZ", b"MZ"), ("zeros", b"\0" * 4096), ("ff", b"\xff" * 512), ("elf-magic", b"\x7fELF" + b"\x01" * 60)]
    if not quick:
        for f in ("tiny", "tiny-idata-51ff", "tiny-overlay", "tiny-universal", "elf_with_imports", "mtxex_modified_rsrc_rva.dll", "tiny_empty_import_name", "ChipTune.efi", "pe_imports", "079a472d22290a94ebb212aa8015cdc8dd28a968c6b4d3b88acdd58ce2d3b885.upx"):
            S.append((f, open(os.path.join(R, "tests/data", f), "rb").read()))
        for d in ("pe", "elf", "macho", "dex", "dotnet"):
            dd = os.path.join(R, "tests/oss-fuzz/%s_fuzzer_corpus" % d)
            for f in sorted(os.listdir(dd)):
                b = open(os.path.join(dd, f), "rb").read()
                if len(b) <= 70000: S.append((d + ":" + f[:24], b))
    else:
        for d in ("pe", "elf", "macho", "dex", "dotnet"):
            dd = os.path.join(R, "tests/oss-fuzz/%s_fuzzer_corpus" % d)
            for f in sorted(os.listdir(dd))[:3]:
                b = open(os.path.join(dd, f), "rb").read()
                if len(b) <= 12000: S.append((d + ":" + f[:24], b))
    return S


def va_near_eof(data):
    """virtual addresses / RVAs that map to the last bytes of the file (PE sections, ELF program headers)"""
    out = set()
    n = len(data)
    try:
        if data[:2] == b"MZ":
            pe = struct.unpack_from("<I", data, 0x3c)[0]
            nsec = struct.unpack_from("<H", data, pe + 6)[0]; opt = struct.unpack_from("<H", data, pe + 20)[0]
            for i in range(min(nsec, 16)):
                o = pe + 24 + opt + 40 * i
                va, rawsz, rawptr = struct.unpack_from("<I", data, o + 12)[0], struct.unpack_from("<I", data, o + 16)[0], struct.unpack_from("<I", data, o + 20)[0]
                for k in (1, 2, 4, 8, 12, 16, 32, 64):
                    t = n - k
                    if rawptr <= t: out.add(va + (t - rawptr))
        if data[:4] == b"\x7fELF":
            is64 = data[4] == 2
            if is64: phoff, phsz, phn = struct.unpack_from("<Q", data, 32)[0], struct.unpack_from("<H", data, 54)[0], struct.unpack_from("<H", data, 56)[0]
            else: phoff, phsz, phn = struct.unpack_from("<I", data, 28)[0], struct.unpack_from("<H", data, 42)[0], struct.unpack_from("<H", data, 44)[0]
            for i in range(min(phn, 16)):
                o = phoff + phsz * i
                if is64: off, va = struct.unpack_from("<Q", data, o + 8)[0], struct.unpack_from("<Q", data, o + 16)[0]
                else: off, va = struct.unpack_from("<I", data, o + 4)[0], struct.unpack_from("<I", data, o + 8)[0]
                for k in (1, 4, 8, 16):
                    if off <= n - k: out.add((va + (n - k - off)) & 0xffffffff)
    except Exception:
        pass
    return sorted(v for v in out if 0 <= v < (1 << 32))


def run_chunk(arg):
    name, seedhex, muts = arg
    def fresh():
        w = yv.get_worker(VAR, timeout=180)
        if getattr(w, "_c06seed", None) != name:
            text, n = rules()
            if not getattr(w, "_c06", False):
                # small match-data / stack configuration: the defaults make every scan allocate ~0.7 MB, which dominates under ASan
                r = w.batch(["reset", "cfg matchdata 16", "cfg stack 1024", "compiler 0", "add 0 - " + yv.hx(text), "getrules 0 0", "cdestroy 0"])
                assert r[4]["errors"] == 0, r[4]
                w._c06 = True
            w.batch(["blob 5 " + seedhex]); w._c06seed = name
        return w
    w = fresh()
    out = []
    B = 40
    for i in range(0, len(muts), B):
        part = muts[i:i + B]
        cmds = []
        for m in part:
            cmds += ["live", "scan target=r0 via=mem ml=0 dump=1 brief=1 data=@5 " + m]
        cmds.append("live")
        try:
            rep = w.batch(cmds, timeout=120)
        except (yv.WorkerDied, yv.WorkerHang) as e:
            # find the culprit by running the part one by one on a fresh worker
            yv.drop_worker(VAR); w = fresh()
            for m in part:
                try:
                    r = w.batch(["live", "scan target=r0 via=mem ml=0 dump=1 brief=1 data=@5 " + m, "live"], timeout=45)     # alone, >100x the normal time of one scan
                    out.append((m, None, sig_of(r[1]), r[2]["live"] - r[0]["live"]))
                except (yv.WorkerDied, yv.WorkerHang) as e2:
                    err = getattr(e2, "err", "")
                    yv.drop_worker(VAR); w = fresh()
                    kind = "hang" if isinstance(e2, yv.WorkerHang) else ("asan:" + err.split("AddressSanitizer: ")[1].split()[0]) if "AddressSanitizer: " in err else "ubsan" if "runtime error" in err else "assert" if "Assertion" in err else "signal"
                    frame = ""
                    for l in err.splitlines():
                        if "/libyara/" in l and " in " in l:
                            frame = l.split(" in ")[1].split(" ")[0]; break
                    out.append((m, "C06:crash:%s:%s" % (kind, frame or "?"), err[-2500:], 0))
            continue
        for j, m in enumerate(part):
            r = rep[2 * j + 1]
            out.append((m, None, sig_of(r), rep[2 * j + 2]["live"] - rep[2 * j]["live"]))
    return name, out


def sig_of(r):
    """hash over module dump hashes + the whole trace (computed in the worker): used by the liveness pass"""
    return (r["rc"], r["h"])


def main():
    ck = yv.Check("C06", "exploration", deadlines=(700, 3300))
    quick = ck.tier == "quick"
    S = [("%02d:%s" % (i, nm), d) for i, (nm, d) in enumerate(seeds(quick))]
    text, nrules = rules()
    yv.worker_exe(VAR)
    cover = []
    total = 0
    data_of = dict(S)

    def run_stage(work, label_of):
        """work: list of (seed name, [mutations]); one pool for the whole stage; returns {seed: {mutation: observation}}"""
        nonlocal total
        res = {}
        jobs = []
        for name, muts in work:
            for c in yv.chunked(muts, 300):
                jobs.append((name, data_of[name].hex() or "-", c))
        jobs.sort(key=lambda j: j[0])
        for (nm, out) in yv.pmap(run_chunk, jobs, ck, prebuild=()):
            d = res.setdefault(nm, {})
            for (m, sig, obs, dlive) in out:
                total += 1
                if sig:
                    ck.violation(sig, dict(seed=nm, seed_size=len(data_of[nm]), mutation=m, pass_=label_of(m), stderr=obs))
                elif dlive != 0:
                    ck.violation("C06:leak:%s" % nm.split(":")[0], dict(seed=nm, mutation=m, pass_=label_of(m), leaked_allocations=dlive))
                else:
                    d[m] = obs
        return res

    # ---- stage A: the seed itself, pass 1 (truncations) and pass 2 (liveness) for every seed
    workA, cuts_of, pos_of = [], {}, {}
    for (name, data) in S:
        n = len(data)
        cuts = list(range(n)) if n <= 8192 else sorted(set(list(range(4096)) + list(range(4096, n, 64)) + list(range(max(0, n - 64), n))))
        pos = list(range(n)) if n <= (12000 if quick else 70000) else list(range(0, n, 3))
        cuts_of[name], pos_of[name] = cuts, pos
        workA.append((name, [""] + ["trunc=%d" % c for c in cuts] + ["set=%d:%02x" % (p, data[p] ^ 0xff) for p in pos]))
    resA = run_stage(workA, lambda m: "seed" if not m else "truncate" if m.startswith("trunc") else "liveness")
    # ---- stage B: pass 3 (boundary bytes) and pass 4 (fields) at the live positions
    workB, live_of, n3, n4 = [], {}, {}, {}
    for (name, data) in S:
        n = len(data); r = resA.get(name, {}); base = r.get("")
        live = sorted(set(p for p in pos_of[name] if r.get("set=%d:%02x" % (p, data[p] ^ 0xff)) != base) | set(range(min(n, 256))))
        live_of[name] = live
        muts3 = []
        for p in live:
            b = data[p]
            for v in sorted(set([0x00, 0x01, 0x7f, 0x80, 0xff, b ^ 0x01, (b + 1) & 0xff]) - {b}):
                muts3.append("set=%d:%02x" % (p, v))
        starts = sorted(set(q for p in live for q in range(p - 3, p + 1) if 0 <= q))
        vas = va_near_eof(data)
        core4, rest4 = set(), set()
        for q in starts:
            for width, fmt in ((2, "H"), (4, "I")):
                if q + width > n: continue
                for endian in ("<", ">"):
                    orig = struct.unpack_from(endian + fmt, data, q)[0]
                    mx = (1 << (8 * width)) - 1
                    vals = {0, 1, mx >> 1, (mx >> 1) + 1, mx, orig + 1, orig - 1, orig * 2}
                    key = {n - 1, n, n + 1}                       # file-size relative and end-of-file addresses: never sub-sampled
                    if width == 4 and endian == "<": key.update(vas)
                    for v in vals | key:
                        if 0 <= v <= mx and v != orig:
                            (core4 if v in key and endian == "<" else rest4).add("set=%d:%s" % (q, struct.pack(endian + fmt, v).hex()))
        rest4 = sorted(rest4 - core4)
        if quick and len(rest4) > 4000: rest4 = rest4[::len(rest4) // 4000 + 1]
        if quick and len(core4) > 30000: core4 = set(sorted(core4)[::len(core4) // 30000 + 1])
        muts4 = sorted(core4) + rest4
        n3[name], n4[name] = len(muts3), len(muts4)
        workB.append((name, muts3 + muts4))
    resB = run_stage(workB, lambda m: "byte-or-field-values")
    # ---- stage C (thorough): pairs of single deviations that changed some module output
    n5 = {}
    if not quick:
        workC = []
        for (name, data) in S:
            if len(data) > 12000: continue
            base = resA.get(name, {}).get("")
            eff = sorted(m for m, o in resB.get(name, {}).items() if o != base)
            eff = eff[:: max(1, len(eff) // 300)]
            pairs = ["set=%s,%s" % (a[4:], b[4:]) for i, a in enumerate(eff) for b in eff[i + 1:] if a.split(":")[0] != b.split(":")[0]]
            n5[name] = len(pairs)
            workC.append((name, pairs))
        run_stage(workC, lambda m: "pairs")
    for (name, data) in S:
        cover.append(dict(seed=name, size=len(data), truncations=len(cuts_of[name]), liveness_positions=len(pos_of[name]), live=len(live_of[name]), byte_cases=n3[name], field_cases=n4[name], pair_cases=n5.get(name, 0)))
    ck.cov["evaluations"] = total
    ck.cov["distinct_nontrivial"] = sum(c["live"] for c in cover) + sum(c["byte_cases"] + c["field_cases"] + c["pair_cases"] for c in cover)
    ck.cov["seeds"] = cover
    ck.cov["rules"] = nrules
    ck.sample(dict(seed=cover[0]["seed"], case="set=60:ff (one byte of the seed replaced), scanned with %d rules calling every module function" % nrules))
    ck.cov["rule"] = ("a case = one seed with one deviation (truncation length / byte value at a live position / 16- or 32-bit field value near a live position; thorough: pairs); "
                      "seeds = in-tree executables of every module's format + a synthetic PE with every table pe.c walks (lib/pegen.py) + a synthetic .NET image with recursive metadata (lib/dotnetgen.py) + synthetic ELF executables with the program header table last and odd entry-size fields (lib/elfgen.py) + degenerate inputs; live = byte positions whose flip changes a module's object dump or a verdict "
                      "(measured); non-trivial = cases at live positions; nothing is claimed beyond this neighbourhood")
    ck.assumptions += ["exhaustive for 1 deviation over the boundary alphabet (and the defined 2-closure in the thorough tier) - inputs needing three coordinated edits are outside",
                       "UBSan groups alignment, signed-integer-overflow, shift-base, function, nonnull-attribute, pointer-overflow are disabled (DESIGN 5)"]
    ck.finish()


if __name__ == "__main__":
    main()
