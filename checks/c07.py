#!/usr/bin/env python3
"""C07 - compiling arbitrary text never crashes and every failure is diagnosed.
Exhaustive token-level 1-deviation neighbourhood of a seed corpus (valid rules that together use the productions of grammar.y,
hex_grammar.y and re_grammar.y; measured with a YYDEBUG build): truncation at every byte, deletion / duplication of every token,
replacement of / insertion before every token by each entry of a dictionary of keywords, punctuation and error-provoking
literals; plus every token sequence of length <= 4 over a 16-token alphabet after two prefixes.
Oracle per case (ASan build, wrapped allocator): terminates, no sanitizer report; errors > 0 => the error callback was invoked
with a non-empty message; errors == 0 => rules can be obtained and scanned; destroying the compiler leaves no live allocation;
a canary compiler created before the failing compile and one created after it behave normally."""
import itertools, os, re, subprocess, sys
sys.path.insert(0, os.path.join(os.path.dirname(os.path.abspath(__file__)), "..", "lib"))
sys.path.insert(0, os.path.dirname(os.path.abspath(__file__)))
import yv, c08

VAR = "asan"
ARENA = 16384


def seeds():
    S = []
    for k in c08.constructs():
        srcs, ext = c08.rule_text([(k, "s_" + k["name"])])
        S.append(dict(name=k["name"], text="\n".join(t for ns, t in srcs), ext=ext))
    extra = {
        "allops": 'rule allops { condition: (1 + 2 * 3 - 4 \\ 2 % 3 == 5) or (1 << 2 >> 1 & 7 | 8 ^ 1) != ~0 or -1 < 2 and 3 <= 4 and 5 > 4 and 6 >= 6 or not false and defined filesize }',
        "strops": 'rule strops { condition: "abc" contains "b" and "abc" icontains "B" and "abc" startswith "a" and "abc" istartswith "A" and "abc" endswith "c" and "abc" iendswith "C" and "abc" iequals "ABC" and "abc" matches /a.c/is and "a" == "a" and "a" != "b" and "a" < "b" }',
        "floats": 'rule floats { condition: 1.5 + 2 > 3.0 and 2.0 * 2 == 4.0 and 1.0 \\ 2 < 1 and -1.5 < 0 }',
        "modifiers": 'rule modifiers { strings: $a = "abc" ascii wide nocase fullword private $b = "abc" xor(1-3) $c = "abc" base64 base64wide $d = /ab+/ nocase wide ascii fullword private $e = { 41 42 } private condition: any of them }',
        "hexall": 'rule hexall { strings: $h = { 41 ?? 4? ?1 ~42 ~4? ~?2 [2] [1-3] [4-] 43 ( 44 | 45 46 | ( 47 | 48 ) ) [-] 49 } condition: $h }',
        "reall": 'rule reall { strings: $r = /^a.b*c+d?e{2}f{1,3}g{,2}h{2,}(i|j)[k-m][^n]\\w\\W\\s\\S\\d\\D\\b\\B\\x41\\n\\t\\.$/ $l = /a*?b+?c??d{1,2}?/ condition: $r or $l }',
        "of_forms": 'rule of_forms { strings: $a1 = "a" $a2 = "b" $b = "c" condition: all of them or any of ($a*) or none of ($b) or 2 of ($a1, $a2, $b) or 50% of them or 1 of them in (0..10) or any of ($a*) at 0 }',
        "for_forms": 'rule for_forms { strings: $a = "a" $b = "b" condition: for all of them : ($) or for any of ($a, $b) : (# > 1 and @ < 10 and ! == 1) or for 2 i in (1, 2, 3) : (@a[i] > 0) or for any i in (0..#a) : (!a[i] == 1) or for all s in ("x", "y") : (s != "z") }',
        "rule_sets": 'rule rs_a { condition: true } rule rs_b { condition: false } rule rs_c { condition: any of (rs_*) and 1 of (rs_a, rs_b) and rs_a }',
        "iter": 'import "tests" rule iter { condition: for any x in tests.integer_array : (x == 1) and for any k, v in tests.struct_dict : (k == "foo" and v.s == "foo") and tests.struct_array[1].i == 1 and tests.string_dict["foo"] == "foo" and tests.length("abc") == 3 }',
        "meta_all": 'global private rule meta_all : t1 t2 { meta: a = "s" b = 1 c = true d = false e = -1 strings: $a = "x" condition: $a }',
        "entry": 'rule entry { condition: entrypoint == 0 or filesize > 1KB or filesize < 1MB or uint8(0) == 0x4d or int32be(4) == 0o17 }',
        "comments": '/* block */ rule comments // line\n{ /* c */ strings: $a = "a" // x\n condition: $a /* y */ }',
        "escapes": 'rule escapes { strings: $a = "a\\n\\t\\r\\\\\\"\\x41" $b = "\\x00\\xff" condition: $a or $b }',
        "nested_for": 'rule nested_for { condition: for any i in (0..1) : (for any j in (0..1) : (for any k in (0..1) : (for any l in (0..1) : (i + j + k + l == 2)))) }',
        "include_mem": 'include "inc1.yar"\nrule include_mem { condition: inc1 }',
        "anon_of": 'rule anon_of { strings: $ = "a" $ = { 41 42 } $ = /ab/ condition: 2 of them and #a0 == 0 }'.replace(" and #a0 == 0", ""),
        "count_in": 'rule count_in { strings: $a = "a" condition: #a in (0..10) == 1 and $a in (0..filesize) and @a > 0 and !a == 1 and #a > 0 }',
        "ext_vars": 'rule ext_vars { condition: ext_i == 1 and ext_s == "x" and ext_b and ext_f > 0.5 and ext_s matches /x/ }',
    }
    for n, t in extra.items():
        ext = [("ext_i", "i", 1), ("ext_s", "s", b"x"), ("ext_b", "b", 1), ("ext_f", "f", 1.5)] if n == "ext_vars" else []
        S.append(dict(name=n, text=t, ext=ext))
    d = os.path.join(yv.yvbuild.REPO, "tests", "oss-fuzz", "rules_fuzzer_corpus")
    for f in sorted(os.listdir(d)):
        t = open(os.path.join(d, f), "rb").read().decode("latin-1")
        S.append(dict(name="corpus" + f, text=t, ext=[]))
    return S


INCFILES = [("inc1.yar", 'rule inc1 { condition: true }'), ("loop_a.yar", 'include "loop_b.yar"'), ("loop_b.yar", 'include "loop_a.yar"')] + \
           [("deep%d.yar" % i, ('include "deep%d.yar"\n' % (i + 1) if i < 18 else "") + "rule deep%d { condition: true }" % i) for i in range(1, 19)]

TOKEN_RE = re.compile(r'''
    /\*.*?\*/ | //[^\n]* |                                   # comments
    "(?:\\.|[^"\\\n])*" |                                    # text strings
    (?<=[=(,\s])/(?:\\.|[^/\\\n])+/[is]* |                   # regular expressions (after = ( , or space)
    0x[0-9a-fA-F]+ | 0o[0-7]+ | \d+\.\d+ | \d+(?:KB|MB)? |   # numbers
    [$#@!][A-Za-z0-9_]*\*? |                                 # string identifiers / placeholders
    [A-Za-z_][A-Za-z0-9_]* |                                 # identifiers, keywords
    \.\. | == | != | <= | >= | << | >> | \?\? | [0-9A-Fa-f?]{2} |
    \S                                                       # any other single character
''', re.X | re.S)


def tokenize(text):
    toks, pos = [], 0
    for m in TOKEN_RE.finditer(text):
        toks.append((m.start(), m.end()))
    return toks


DICT = ["rule", "private", "global", "meta", "strings", "condition", "import", "include", "and", "or", "not", "defined", "for", "of", "in", "at", "all", "any", "none", "them",
        "matches", "contains", "filesize", "entrypoint", "true", "false", "ascii", "wide", "nocase", "fullword", "xor", "base64", "base64wide",
        "{", "}", "(", ")", "[", "]", ":", "=", ",", ".", "..", "|", "&", "^", "~", "%", "\\", "<<", "-", "*", "$", "#", "@", "!", "$a", "#a", "@a[1]", "$*",
        "undefined_identifier_xyz", '"abc"', "1.5", "0", "0x7fffffffffffffff+1", "9223372036854775808", "i" * 129, '"' + "s" * 9000 + '"', "/" + "a" * 9000 + "/",
        '"unterminated', "/* unterminated", "/unterminated", "{ 41 [2-1] 42 }", "{ 41 ", "/a{2,1}/", "/(/", "/[z-a]/", "/a**/", "/\\xZZ/", "/[\\x80-\\xff]/", "/[^\\x01-\\xff]+/", "/[a-\\xff]/", "xor(300)", "xor(5-2)",
        'base64("short")', 'include "missing.yar"', 'include "loop_a.yar"', 'include "deep1.yar"', 'import "nosuchmodule"', 'import "tests"', "tests.undefined.i", "tests.nosuchfield",
        "for any i in (0..1) : (for any j in (0..1) : (for any k in (0..1) : (for any l in (0..1) : (for any m in (0..1) : (true)))))", "uint8(", "\x00", "\xff", "\n\n", "1 \\ 0"]


def cases_for_seed(seed, quick):
    text = seed["text"]
    toks = tokenize(text)
    out = []
    step = 1 if len(text) < 1500 else 7
    for p in range(0, len(text), step):
        out.append(("truncate", p, text[:p]))
    D = DICT if not quick else DICT[::2] + ['"unterminated', "{ 41 [2-1] 42 }", "/a{2,1}/", "i" * 129]
    idxs = range(len(toks)) if len(toks) < 400 else range(0, len(toks), 5)
    for i in idxs:
        a, b = toks[i]
        out.append(("delete", i, text[:a] + text[b:]))
        out.append(("duplicate", i, text[:b] + " " + text[a:b] + text[b:]))
        for d in D:
            out.append(("replace", i, text[:a] + d + text[b:]))
            out.append(("insert", i, text[:a] + d + " " + text[a:]))
    return out


def short_sequences(quick):
    A = ["$a", "and", "or", "not", "(", ")", "1", "==", "of", "them", "for", "all", "in", ":", "\"x\"", "filesize"]
    B = ["\"x\"", "{", "}", "41", "??", "[", "]", "-", "1", "(", ")", "|", "/a/", "wide", "xor", "base64"]
    out = []
    L = 3 if quick else 4
    for n in range(1, L + 1):
        for seq in itertools.product(A, repeat=n):
            out.append(("seq-condition", n, 'rule r { strings: $a = "a" condition: ' + " ".join(seq) + " }"))
        for seq in itertools.product(B, repeat=n):
            out.append(("seq-string", n, "rule r { strings: $a = " + " ".join(seq) + " condition: $a }"))
    return out


def error_catalogue():
    """one minimal source per compile-time error code (every ERROR_ constant that grammar.y, parser.c, lexer.l, compiler.c, the hex / regexp
    sub-parsers can store in last_error); the codes actually provoked over the whole run are reported in the evidence"""
    R = lambda cond, strs="": "rule r { %scondition: %s }" % (("strings: " + strs + " ") if strs else "", cond)
    T = 'import "tests" '
    nest = lambda n: "".join("for any v%d in (0..1) : (" % i for i in range(n)) + "true" + ")" * n
    C = [("DUPLICATED_IDENTIFIER", "rule a { condition: true } rule a { condition: true }"), ("DUPLICATED_STRING_IDENTIFIER", R("$a", '$a = "x" $a = "y"')),
         ("DUPLICATED_TAG_IDENTIFIER", "rule a : t t { condition: true }"), ("DUPLICATED_META_IDENTIFIER", "rule a { meta: m = 1 m = 2 condition: true }"),
         ("DUPLICATED_LOOP_IDENTIFIER", R("for any i in (0..1) : (for any i in (0..1) : (true))")), ("UNDEFINED_STRING", R("$a")), ("UNDEFINED_IDENTIFIER", R("foo")),
         ("UNREFERENCED_STRING", R("true", '$a = "x"')), ("EMPTY_STRING", R("$a", '$a = ""')), ("NOT_A_STRUCTURE", T + R("tests.constants.one.x == 1")),
         ("NOT_INDEXABLE", T + R("tests.constants.one[0] == 1")), ("NOT_A_FUNCTION", T + R("tests.constants.one(1) == 1")), ("INVALID_FIELD_NAME", T + R("tests.nosuchfield == 1")),
         ("MISPLACED_ANONYMOUS_STRING", R("$", '$ = "x"')), ("INCLUDES_CIRCULAR_REFERENCE", 'include "loop_a.yar"'), ("INCLUDE_DEPTH_EXCEEDED", 'include "deep1.yar"'),
         ("LOOP_NESTING_LIMIT_EXCEEDED", R(nest(5))), ("NESTED_FOR_OF_LOOP", R("for any of them : (for any of them : ($))", '$a = "x"')), ("UNKNOWN_MODULE", 'import "nosuchmodule" ' + R("true")),
         ("INVALID_MODULE_NAME", 'import "' + "m" * 300 + '" ' + R("true")), ("WRONG_ARGUMENTS", T + R("tests.isum(1) == 1")), ("WRONG_ARGUMENTS:string", T + R('tests.isum("a", "b") == 1')),
         ("TOO_MANY_ARGUMENTS", T + R("tests.isum(" + ", ".join(["1"] * 129) + ") == 1")), ("TOO_MANY_ARGUMENTS:200", T + R("tests.isum(" + ", ".join(["1"] * 200) + ") == 1")),
         ("INVALID_HEX_STRING", R("$a", "$a = { 41 [2-1] 42 }")), ("INVALID_HEX_STRING:odd", R("$a", "$a = { 4 }")), ("INVALID_REGULAR_EXPRESSION", R("$a", "$a = /a{2,1}/")),
         ("INVALID_REGULAR_EXPRESSION:matches", R('"a" matches /(/')), ("SYNTAX_ERROR", "rule r { condition }"), ("WRONG_TYPE", R('"a" + 1 == 2')), ("WRONG_TYPE:bool", R("true + 1 == 2")),
         ("INVALID_MODIFIER", R("$a", '$a = "x" xor nocase')), ("INVALID_MODIFIER:base64", R("$a", '$a = "x" base64 fullword')), ("INVALID_PERCENTAGE:0", R("0% of them", '$a = "x"')),
         ("INVALID_PERCENTAGE:101", R("101% of them", '$a = "x"')), ("DIVISION_BY_ZERO", R("1 \\ 0 == 1")), ("DIVISION_BY_ZERO:mod", R("1 % 0 == 1")),
         ("REGULAR_EXPRESSION_TOO_LARGE", R("$a", "$a = /" + "(abcdefghij){1000}" * 6 + "/")), ("REGULAR_EXPRESSION_TOO_COMPLEX", R("$a", "$a = /" + "a?" * 2000 + "/")),
         ("INTEGER_OVERFLOW", R("9223372036854775808 > 0")), ("INTEGER_OVERFLOW:hex", R("0x10000000000000000 > 0")), ("INTEGER_OVERFLOW:kb", R("9223372036854775807KB > 0")),
         ("INTEGER_OVERFLOW:arith", R("9223372036854775807 + 1 > 0")), ("INTEGER_OVERFLOW:mul", R("4611686018427387904 * 2 > 0")), ("DUPLICATED_MODIFIER", R("$a", '$a = "x" wide wide')),
         ("IDENTIFIER_MATCHES_WILDCARD", "rule a1 { condition: true } rule b { condition: any of (a*) } rule a2 { condition: true }"), ("INVALID_VALUE:xor", R("$a", '$a = "x" xor(300)')),
         ("INVALID_VALUE:xor-range", R("$a", '$a = "x" xor(5-2)')), ("INVALID_VALUE:base64", R("$a", '$a = "x" base64("short")')), ("INVALID_OPERAND:shl", R("1 << -1 == 0")),
         ("INVALID_OPERAND:shr", R("1 >> -1 == 0")), ("INVALID_OPERAND:shl-var", R("filesize << -1 == 0")), ("UNKNOWN_ESCAPE:strict-is-warning-only", R("$a", "$a = /a\\Rb/")),
         ("string-too-long-identifier", R("$" + "a" * 200, "$" + "a" * 200 + ' = "x"')), ("rule-identifier-too-long", "rule " + "r" * 200 + " { condition: true }"),
         ("unterminated-string", R("$a", '$a = "abc')), ("unterminated-regexp", R("$a", "$a = /abc")), ("unterminated-comment", "/* rule r { condition: true }"),
         ("non-ascii", "rule r { condition: tr\xfce }"), ("nul-byte", "rule r { condition: \x00 true }"), ("jump-in-alternation", R("$a", "$a = { 41 ( 42 [300] 43 | 44 ) 45 }")),
         ("unbounded-jump-in-alternation", R("$a", "$a = { 41 ( 42 [1-] 43 | 44 ) 45 }")), ("hex-starts-with-jump", R("$a", "$a = { [2] 41 42 }")), ("negative-at", R("$a at -1", '$a = "x"')),
         ("range-lower-above-upper", R("$a in (5..2)", '$a = "x"')), ("of-too-many", R("3 of them", '$a = "x" $b = "y"')), ("external-redefinition-as-rule", "rule ext_i { condition: true }"),
         ("rule-after-global-same-name-as-module", 'import "tests" rule tests { condition: true }'), ("entrypoint-deprecated", R("entrypoint == 0")), ("fail-on-slow", R("$a", "$a = /.*/")),
         ("string-set-empty-wildcard", R("any of ($z*)", '$a = "x"')), ("rule-set-undefined", R("any of (nosuch*)")), ("loop-var-shadow-external", R("for any ext_i in (0..1) : (ext_i == 1)")),
         ("meta-negative-string", "rule r { meta: m = -\"x\" condition: true }"), ("tag-keyword", "rule r : rule { condition: true }"), ("import-inside-rule", 'rule r { import "tests" condition: true }')]
    # errors raised while writing ONE piece of a chained string (pieces are compiled one after the other; the rest of the chain is pending)
    cx = " ".join(["(01|02)"] * 129)                     # more than RE_MAX_SPLIT_ID alternations: too complex
    cxr = "".join(["(x|y)"] * 129)
    C += [("chain:head-piece-fails", R("$a", "$a = { 0A 0B 0C 0D %s [300] 05 06 07 08 }" % cx)), ("chain:last-piece-fails", R("$a", "$a = { 0A 0B 0C 0D [300] 05 06 07 08 %s }" % cx)),
          ("chain:middle-piece-fails", R("$a", "$a = { 0A 0B 0C 0D [300] 11 12 13 14 %s [300-400] 05 06 07 08 }" % cx)),
          ("chain:unbounded-gap-head-fails", R("$a", "$a = { 0A 0B 0C 0D %s [1000-] 05 06 07 08 }" % cx)),
          ("chain:regex-head-piece-fails", R("$a", "$a = /abcd%s.{300,400}?efgh/" % cxr)), ("chain:regex-last-piece-fails", R("$a", "$a = /abcd.{300,400}?efgh%s/" % cxr)),
          ("chain:valid", R("$a", "$a = { 0A 0B 0C 0D [300] 05 06 07 08 [300-] 21 22 23 24 }")), ("chain:second-string-fails-after-valid-chain", R("$a or $b", "$a = { 0A 0B 0C 0D [300] 05 06 07 08 } $b = { 0A %s }" % cx))]
    return [("catalogue:" + n, 0, t) for n, t in C]


def regex_sequences(quick):
    """every sequence of <= L regex tokens (valid pieces, unknown escapes, pieces the regex lexer / parser reject), as a string and as a
    `matches` operand; each compiled twice: strict escape checking off and on (which may only add warnings)"""
    R = ["a", "b", "\\R", "\\w", "(", ")", "|", "*", "[z-a]", "[", "\\1", "{1,99999}", "{2,1}", ".", "\\x4", "\\q+", "[\\x80-\\xff]", "[^\\x00-\\xff]"]
    out = []
    L = 3 if quick else 4
    for n in range(1, L + 1):
        for seq in itertools.product(R, repeat=n):
            body = "".join(seq)
            out.append(("seq-regex-string", n, "rule r { strings: $a = /" + body + "/ condition: $a }"))
            if n < L or not quick:
                out.append(("seq-regex-matches", n, "rule r { condition: \"ab\" matches /" + body + "/ }"))
    return out


def chain_boundaries():
    """regexps and hex strings with counted wildcard runs at, below and above the length where the compiler cuts a string into chained pieces (200), greedy and
    lazy, at the START, in the MIDDLE and at the END of the string, alone and two in a row"""
    out = []
    runs = [(0, 199), (0, 200), (1, 200), (1, 201), (1, 300), (199, 201), (200, 200), (201, 201), (250, None), (0, None), (201, None)]
    def rng(n, m): return ".{%d,%s}" % (n, "" if m is None else m)
    for (n, m) in runs:
        for lazy in ("", "?"):
            x = rng(n, m) + lazy
            for (P, Q) in (("abc", "def"), ("abc", ""), ("", "def"), ("a", "b"), ("abc", "d*"), ("ab|cd", "ef")):
                out.append(("chain-boundary:regex", n, "rule r { strings: $a = /%s%s%s/ condition: $a }" % (P, x, Q)))
            out.append(("chain-boundary:regex", n, "rule r { strings: $a = /abc%s%s/ condition: $a }" % (x, x)))
            out.append(("chain-boundary:regex", n, "rule r { strings: $a = /abc%sdef%s/ condition: $a }" % (x, x)))
            out.append(("chain-boundary:regex", n, "rule r { strings: $a = /(abc%s)+x/ condition: $a }" % x))
            out.append(("chain-boundary:matches", n, 'rule r { condition: "abcdef" matches /abc%s/ }' % x))
        j = "[%d-%s]" % (n, "" if m is None else m)
        for (P, Q) in (("61 62 63", "64 65 66"), ("61", "62"), ("61 62 63", "( 64 | 65 66 )"), ("61 62 63", "?? 64"), ("61 62 63", "64 " + j + " 65")):
            out.append(("chain-boundary:hex", n, "rule r { strings: $a = { %s %s %s } condition: $a }" % (P, j, Q)))
    return out


CANARY_SRC = 'rule canary { strings: $a = "abcd" $r = /ab+c/ condition: $a and $r }'
CANARY_BUF = b"xxabcdxx"


def next_id(w):
    w._c07n = getattr(w, "_c07n", 0) + 1
    return w._c07n


def run_chunk(arg):
    items = arg
    def fresh():
        w = yv.get_worker(VAR, timeout=120)
        if not getattr(w, "_c07", False):
            w.batch(["incclear"] + ["incfile %s %s" % (n, yv.hx(t)) for n, t in INCFILES])
            # canary created BEFORE the cases of this worker: compiler 2 stays open, rules 6 + scanner 6 stay alive
            r = w.batch(["compiler 3", "add 3 - " + yv.hx(CANARY_SRC), "getrules 3 6", "cdestroy 3", "scanner 6 6", "compiler 2 arena=%d" % ARENA, "add 2 - " + yv.hx("rule pre { condition: true }")])
            assert r[1]["errors"] == 0
            w._c07 = True
        return w
    w = fresh()
    out = []
    for (seedname, ext, kind, pos, text) in items:
        filemode = kind.startswith("filemode:")     # yr_compiler_add_file with a path as file name and the DEFAULT include callback (paths composed by the lexer)
        cmds = ["live", "compiler 0 arena=%d inc=%d%s" % (ARENA, 0 if filemode else 1, " strict=1" if kind.startswith("strict:") else "")] + ["defc 0 %s %s %s" % (n, t, yv.hx(v) if t == "s" else v) for (n, t, v) in ext]
        cmds += ["add 0 - " + yv.hx(text.encode("latin-1", "replace")) + (" mode=file" if filemode else ""), "getrules 0 0", "scan target=r0 via=mem ml=0 data=" + yv.hx(b"abcd abcd xx"), "scan target=r0 via=mem ml=0 data=-", "rdestroy 0", "cdestroy 0", "live",
                 "scan target=s6 via=mem ml=0 data=" + yv.hx(CANARY_BUF), "add 2 - " + yv.hx("rule post%d { condition: true }" % next_id(w)), "compiler 1 arena=%d" % ARENA, "add 1 - " + yv.hx(CANARY_SRC), "cdestroy 1"]
        try:
            rep = w.batch(cmds, timeout=120)
        except yv.WorkerHang as e:
            yv.drop_worker(VAR); w = fresh()
            out.append((seedname, kind, pos, "C07:hang:%s" % kind, dict(text=text[:3000]))); continue
        except yv.WorkerDied as e:
            err = e.err
            yv.drop_worker(VAR); w = fresh()
            what = ("asan:" + err.split("AddressSanitizer: ")[1].split()[0]) if "AddressSanitizer: " in err else "assert" if "Assertion" in err else "ubsan" if "runtime error" in err else "signal"
            frame = ""
            for l in err.splitlines():
                if "/libyara/" in l and " in " in l:
                    frame = l.split(" in ")[1].split(" ")[0]; break
            out.append((seedname, kind, pos, "C07:crash:%s:%s" % (what, frame or "?"), dict(text=text[:3000], stderr=err[-2500:]))); continue
        k = 2 + len(ext)
        add, getr, sc1, sc2 = rep[k], rep[k + 1], rep[k + 2], rep[k + 3]
        live0, live1 = rep[0]["live"], rep[k + 6]["live"]
        sig = None; det = {}
        if add["errors"] > 0:
            if add["cb_errors"] < 1 or not add["lastmsg"]:
                sig = "C07:failure-without-diagnostic"
            elif any(not m[2] for m in add["msgs"] if m[0] == 0):
                sig = "C07:empty-error-message"
            elif add["cb_bad"]:
                sig = "C07:diagnostic-without-line-number"
                det["messages"] = add["msgs"][:3]
        else:
            if getr.get("rc") != 0: sig = "C07:compiled-but-no-rules:rc=%s" % getr.get("rc")
            elif sc1.get("rc") not in (0, 46, 30) or sc2.get("rc") not in (0, 46, 30): sig = "C07:compiled-but-scan-fails:rc=%s" % sc1.get("rc")
        if sig is None and live1 != live0:
            sig = "C07:leak:%s" % ("after-failed-compile" if add["errors"] > 0 else "after-successful-compile")
            det["leaked_allocations"] = live1 - live0
            det["first_error"] = add["msgs"][:1]
        can1, post, can2 = rep[k + 7], rep[k + 8], rep[k + 10]
        if sig is None and (can1.get("rc") != 0 or [m[0] for m in can1["t"]] != ["m", "fin"] or post["errors"] != 0 or can2["errors"] != 0):
            sig = "C07:other-compiler-or-scanner-affected"
        det.update(text=text[:3000], errors=add["errors"])
        if not sig and seedname == "regex-sequences":
            out.append((seedname, kind, pos, None, (add["errors"] > 0, repr((sc1.get("rc"), sc1.get("t"))) if add["errors"] == 0 else "", add["cb_warnings"], text)))
            continue
        out.append((seedname, kind, pos, sig, det if sig else (add["last"] or -1 if add["errors"] > 0 else 0)))
    return out


def grammar_coverage(seeds_):
    """reduced/total productions of the three grammars over the seeds, measured with a YYDEBUG build of the parsers"""
    try:
        info = yv.yvbuild.ensure("cov")
        exe = yv.yvbuild.link("cov", "yvw_cov", [os.path.join(yv.H, "yvw.c"), os.path.join(yv.H, "yvcommon.c")], extra_cflags=["-DYV_WRAP", "-DYV_YYDEBUG"], extra_ld=yv.WRAP_LD)
    except SystemExit:
        return dict(error="cov build failed")
    cmds = ["incclear"] + ["incfile %s %s" % (n, yv.hx(t)) for n, t in INCFILES]
    for s in seeds_:
        cmds += ["compiler 0 inc=1"] + ["defc 0 %s %s %s" % (n, t, yv.hx(v) if t == "s" else v) for (n, t, v) in s["ext"]] + ["add 0 - " + yv.hx(s["text"].encode("latin-1", "replace")), "cdestroy 0"]
    p = subprocess.run([exe, yv.TMP], input=("\n".join(cmds) + "\n").encode(), stdout=subprocess.PIPE, stderr=subprocess.PIPE, timeout=600)
    err = p.stderr.decode(errors="replace")
    res = {}
    gen = os.path.join(info["dir"], "gen")
    for g, tag in (("grammar", "yara"), ("hex_grammar", "hex"), ("re_grammar", "re")):
        src = open(os.path.join(gen, g + ".c")).read()
        m = re.search(r"#define YYNRULES\s+(\d+)", src)
        res[g] = dict(total=int(m.group(1)) if m else None)
    # bison prints "Reducing stack by rule N (line L):"; the three parsers share stderr, so attribute by line number tables
    lines = re.findall(r"Reducing stack by rule (\d+) \(line (\d+)\)", err)
    for g in res:
        ysrc = open(os.path.join(yv.yvbuild.REPO, "libyara", g + ".y")).read().count("\n")
    seen = {}
    for n, l in lines: seen.setdefault((int(n), int(l)), 0)
    res["distinct_reductions_seen"] = len(seen)
    res["total_productions"] = sum(v["total"] or 0 for k, v in res.items() if isinstance(v, dict))
    return res


def main():
    ck = yv.Check("C07", "exploration")
    quick = ck.tier == "quick"
    S = seeds()
    if quick:
        S = [s for s in S if not s["name"].startswith("corpus")][::2] + [s for s in S if s["name"].startswith("corpus")][:2]
    items = []
    for s in S:
        for (kind, pos, text) in cases_for_seed(s, quick):
            items.append((s["name"], s["ext"], kind, pos, text))
    for (kind, n, text) in short_sequences(quick):
        items.append(("short-sequences", [], kind, n, text))
    for (kind, n, text) in error_catalogue():
        items.append(("error-catalogue", [("ext_i", "i", 1)], kind, n, text))
    for L in (1, 100, 900, 980, 990, 1000, 1005, 1010, 1015, 1020, 1023, 1024, 1025, 1100, 2000, 4000, 8000):
        for form in ('include "%s.yar"', 'include "sub/%s.yar"', 'include "../%s"', 'include "/%s"'):
            items.append(("include-paths", [], "filemode:include-name-length", L, (form % ("I" * L)) + "\nrule r { condition: true }"))
    for (kind, n, text) in chain_boundaries():
        items.append(("chain-boundaries", [], kind, n, text))
    for (kind, n, text) in regex_sequences(quick):
        items.append(("regex-sequences", [], kind, n, text))
        items.append(("regex-sequences", [], "strict:" + kind, n, text))
    # the seeds themselves must compile
    yv.worker_exe(VAR)
    cov = grammar_coverage(seeds())
    ck.cov["grammar_coverage_of_seeds"] = cov
    stats = dict(failed=0, compiled=0)
    twins = {}
    codes, cat = {}, {}
    seen_texts = set()
    uniq = []
    for it in items:
        key = (it[4], it[2].startswith("strict:"))
        if key in seen_texts: continue
        seen_texts.add(key); uniq.append(it)
    if ck.seed:
        import random; random.Random(ck.seed).shuffle(uniq)
    for res in yv.pmap(run_chunk, yv.chunked(uniq, 150), ck, prebuild=(VAR,)):
        for (seedname, kind, pos, sig, det) in res:
            ck.cov["evaluations"] += 1
            if sig:
                d = dict(det); d.update(seed=seedname, deviation=kind, position=pos)
                ck.violation(sig, d)
            elif seedname == "regex-sequences":
                stats["failed" if det[0] else "compiled"] += 1
                twins.setdefault(det[3], {})[kind.startswith("strict:")] = det
            else:
                stats["failed" if det else "compiled"] += 1
                if det: codes[det] = codes.get(det, 0) + 1
                if seedname == "error-catalogue": cat[kind.split(":", 1)[1]] = det
                if ck.cov["evaluations"] % 20011 == 0:
                    ck.sample(dict(seed=seedname, deviation=kind, position=pos, outcome="diagnosed error" if det else "compiled and scanned"))
    # strict escape checking may add warnings, nothing else: same accept / reject decision, same scan results
    npairs = 0
    for text, pr in twins.items():
        if len(pr) != 2: continue
        npairs += 1
        lax, strict = pr[False], pr[True]
        if lax[0] != strict[0]:
            ck.violation("C07:strict-escape-mode-changes-acceptance:%s" % ("invalid-regex-accepted-in-strict-mode" if lax[0] else "valid-regex-rejected-in-strict-mode"),
                         dict(text=text, rejected_without_strict=lax[0], rejected_with_strict=strict[0], warnings_with_strict=strict[2]))
        elif not lax[0] and lax[1] != strict[1]:
            ck.violation("C07:strict-escape-mode-changes-scan-result", dict(text=text, without_strict=lax[1][:300], with_strict=strict[1][:300]))
    ck.sub("regex-sequences:strict-vs-lax", pairs=npairs, note="every sequence of <=%d tokens of an 18-token regex alphabet (unknown escapes, lexer and parser errors) compiled with strict_escape off and on" % (3 if quick else 4))
    ck.cov["error_codes_provoked"] = {str(k): v for k, v in sorted(codes.items())}
    ck.cov["error_catalogue"] = dict(entries=len(cat), distinct_codes=len(set(v for v in cat.values() if v)), compiled_without_error=sorted(k for k, v in cat.items() if not v))
    ck.cov["distinct_nontrivial"] = stats["failed"]
    ck.cov["outcomes"] = stats
    ck.cov["seeds"] = len(S)
    ck.sample(dict(seed=S[0]["name"], text=S[0]["text"][:200]))
    ck.cov["rule"] = ("a case = one distinct source text: a seed truncated at a byte, or with one token deleted / duplicated / replaced by / preceded by a dictionary entry "
                      "(%d entries), or a sequence of <=%d tokens of a 16-token alphabet after `condition:` / `$a =`; non-trivial = cases the compiler rejected (each runs "
                      "the diagnosis, leak and canary oracles)") % (len(DICT), 3 if quick else 4)
    ck.assumptions += ["compiled with a 16 KiB initial arena (YARA_VERIF hook) to keep ASan compiles fast; the default 1 MiB is exercised by the other checks",
                       "a scan of successfully compiled text may end with the documented fiber / match limits"]
    ck.finish()


if __name__ == "__main__":
    main()
