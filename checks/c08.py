#!/usr/bin/env python3
"""C08 - saved rules behave identically once loaded.
Every single construct and every ordered pair of constructs of a list covering each string kind / modifier family, chained
strings, regex `matches` operands, text-string sets, loops, imports, externals of the four types, tags, metas, namespaces,
global/private rules is compiled, saved through a memory stream and re-loaded through a stream that hands out c bytes at a
time for every c in a list; the loaded rules are compared with the original (full traces on a buffer set, tags, metas,
externals), saved again (bytes must be equal), and the original must stay usable.  Saved bytes are compared across heap
histories, across processes (ASLR) and under setarch -R.  API histories {define_r, save, load, scan} up to depth 3."""
import base64, hashlib, itertools, json, os, subprocess, sys
sys.path.insert(0, os.path.join(os.path.dirname(os.path.abspath(__file__)), "..", "lib"))
import yv

CHUNKS = [1, 2, 3, 7, 8, 9, 64, 4096, 0]
PLAIN = b"This program cannot"


def constructs():
    K = []
    def add(name, text, imports=(), ext=(), ns=None):
        K.append(dict(name=name, text=text, imports=imports, ext=ext, ns=ns))
    add("text", 'rule %s { strings: $a = "abcd" condition: $a }')
    add("nocase", 'rule %s { strings: $a = "AbCd" nocase condition: #a == 2 }')
    add("wide", 'rule %s { strings: $a = "abcd" wide condition: $a }')
    add("asciiwidefull", 'rule %s { strings: $a = "abcd" ascii wide fullword condition: $a }')
    add("xor", 'rule %s { strings: $a = "abcd" xor condition: $a }')
    add("xorrange", 'rule %s { strings: $a = "abcd" xor(0x10-0x20) condition: $a }')
    add("base64", 'rule %s { strings: $a = "This program cannot" base64 condition: $a }')
    add("base64wide", 'rule %s { strings: $a = "This program cannot" base64wide condition: $a }')
    add("privatestr", 'rule %s { strings: $a = "abcd" private $b = "zz" condition: $a or $b }')
    add("hexwild", 'rule %s { strings: $h = { 61 62 ?? 64 6? } condition: $h }')
    add("hexjump", 'rule %s { strings: $h = { 61 62 [1-3] 65 66 } condition: $h }')
    add("hexchain", 'rule %s { strings: $h = { 41 42 43 44 [200-300] 45 46 47 48 } condition: $h }')
    add("hexchain3", 'rule %s { strings: $h = { 41 42 43 44 [-] 4d 4e 4f 50 [201-] 45 46 47 48 } condition: $h }')
    add("hexalt", 'rule %s { strings: $h = { 61 (62 63|78 79 7a) 64 } condition: $h }')
    add("regex", 'rule %s { strings: $r = /ab[cx]d+e?/ condition: $r }')
    add("regexwide", 'rule %s { strings: $r = /ABCD[0-9]{1,3}/ nocase wide ascii condition: $r }')
    add("regexchain", 'rule %s { strings: $r = /ABCD.{250,300}EFGH/ condition: $r }')
    add("matches", 'rule %s { condition: xs matches /^v[0-9]+$/ }', ext=[("xs", "s", b"v12")])
    add("strset", 'rule %s { condition: for any s in ("v12", "nope") : (xs2 == s) }', ext=[("xs2", "s", b"v12")])
    add("forrange", 'rule %s { strings: $a = "ab" condition: for any i in (0..8) : ($a at i*2) }')
    add("forof", 'rule %s { strings: $a = "abcd" $b = "efgh" condition: for all of them : (# >= 1) }')
    add("ofthem", 'rule %s { strings: $a = "abcd" $b = "efgh" $c = "zzzz" condition: 2 of them }')
    add("ofpct", 'rule %s { strings: $a1 = "abcd" $a2 = "efgh" $b = "zzzz" condition: 50%% of ($a*) or $b }')
    add("pe", 'rule %s { condition: pe.number_of_sections == 1 and pe.sections[0].name == ".text" }', imports=("pe",))
    add("math", 'rule %s { condition: math.entropy(0, filesize) > 2.0 and math.in_range(math.mean(0, filesize), 30.0, 200.0) }', imports=("math",))
    add("hash", 'rule %s { condition: hash.md5(0, 4) == "%s" }' .replace('"%s"', '"' + hashlib.md5(b"abcd").hexdigest() + '"'), imports=("hash",))
    add("tests", 'rule %s { condition: tests.constants.foo == "foo" and tests.isum(1, 2) == 3 and for any k, v in tests.struct_dict : (k == "foo" and v.i == 1) }', imports=("tests",))
    add("extint", 'rule %s { condition: xi == 7 and filesize > xi }', ext=[("xi", "i", 7)])
    add("extfloat", 'rule %s { condition: xf > 1.0 and xf < 2.0 }', ext=[("xf", "f", 1.5)])
    add("extbool", 'rule %s { condition: xb and not xb2 }', ext=[("xb", "b", 1), ("xb2", "b", 0)])
    add("extstring", 'rule %s { condition: xstr contains "mid" and xstr startswith "a" }', ext=[("xstr", "s", b"a-mid-z")])
    add("tags", 'rule %s : tag_one tag_two Tag3 { condition: filesize > 3 }')
    add("metas", 'rule %s { meta: m_str = "hello \\x01" m_int = 42 m_neg = -7 m_bool = true m_false = false m_empty = "" condition: true }')
    add("ns2", 'rule %s { strings: $a = "abcd" condition: $a }', ns="other")
    add("global", 'global rule %s { condition: filesize < 5000 }', ns="gns")
    add("privaterule", 'private rule %s { condition: filesize > 0 } rule %s_user { condition: %s }')
    add("atin", 'rule %s { strings: $a = "abcd" condition: $a at 0 or $a in (10..30) or @a[2] == 8 or !a[1] == 4 }')
    add("readers", 'rule %s { condition: uint16(0) == 0x5a4d or uint32be(0) == 0x61626364 or int8(filesize - 1) == 0x64 }')
    add("anon", 'rule %s { strings: $ = "abcd" $ = "efgh" condition: 1 of them }')
    add("console", 'rule %s { condition: console.log("size=", filesize) and console.hex("h=", filesize) }', imports=("console",))
    add("defined", 'rule %s { condition: not defined pe.entry_point or pe.entry_point >= 0 }', imports=("pe",))
    add("atomless", 'rule %s { strings: $r = /[ab][bc][cd][de][ab]{2,3}/ $w = /[ab][bc][x-z]{1,2}[cd]/ wide condition: $r or $w }')      # class-only strings: no atom, the whole regexp hangs off the root state
    add("manystrings", 'rule %s { strings: ' + " ".join('$s%d = "str%04d"' % (i, i) for i in range(40)) + ' condition: any of them }')
    # minimal rule sets: buffers of the compiled image that hold only a few bytes (one-instruction regexp code, a one-letter namespace name)
    add("tinymatches", 'rule %s { condition: "a" matches /x/ }')
    add("tinyns", 'rule %s { condition: true }', ns="n")
    add("tinyrule", 'rule a { condition: true }', ns="n")          # one-letter rule in a one-letter namespace: a 4-byte string pool when compiled alone
    add("tinyns2", 'rule %s { condition: filesize >= 0 }', ns="ab")
    add("ruleset", 'rule %s_a { condition: filesize > 2 } rule %s_b { condition: filesize > 100 } rule %s { condition: 1 of (%s_*) }')
    return K


def buffers():
    pe = yv.blob("PE32_FILE")
    xored = bytes(c ^ 0x15 for c in b"abcd")
    return [b"", b"abcd", b"xxABCDyyabcd", b"a\0b\0c\0d\0", b"-abcd-" + xored + b"-", base64.b64encode(b"__" + PLAIN + b"__"), base64.b64encode(b"_" + PLAIN).decode().encode("utf-16le"),
            b"abcdefgh ab ab ab abXdef abxyzd abcddde", b"ABCD" + b"." * 250 + b"EFGH" + b"ABCD123", b"ABCD..MNOP" + b"." * 205 + b"EFGH zzzz", pe, b"efgh str0007 " + bytes(range(256))]


def rule_text(parts):
    """parts: list of (construct, rulename) -> list of (namespace, text), externals"""
    ext, srcs, imports = [], [], []
    for c, name in parts:
        t = c["text"]
        n = t.count("%s") - 0
        t = t % ((name,) * n) if n else t
        for im in c["imports"]:
            if im not in imports: imports.append(im)
        for e in c["ext"]:
            if e not in ext: ext.append(e)
        srcs.append((c["ns"] or "-", t))
    head = "".join('import "%s"\n' % i for i in imports)
    return [(ns, head + t) for ns, t in srcs], ext


def scan_all(target, bufs):
    return ["scan target=%s via=mem data=%s" % (target, yv.hx(b)) for b in bufs]


def obs(reps):
    return json.dumps([[r["t"], r["rc"]] for r in reps])


def check_set(w, label, parts, bufs, deep):
    """returns list of (signature, detail); counts"""
    srcs, ext = rule_text(parts)
    viol = []
    cmds = ["reset", "compiler 0"] + ["defc 0 %s %s %s" % (n, t, yv.hx(v) if t == "s" else v) for (n, t, v) in ext]
    cmds += ["add 0 %s %s" % (ns, yv.hx(t)) for ns, t in srcs] + ["getrules 0 0", "cdestroy 0", "info 0"]
    rep = w.batch(cmds)
    adds = [r for r in rep if "errors" in r]
    if any(a["errors"] for a in adds) or rep[-3].get("rc") != 0:
        return [("C08:construct-does-not-compile", dict(label=label, replies=[a for a in adds if a["errors"]][:1]))], 0
    info0 = rep[-1]
    n = 0
    base = w.batch(scan_all("r0", bufs)); o0 = obs(base); n += len(bufs)
    sv = w.cmd("save 0 0")
    if sv["rc"] != 0:
        return [("C08:save-failed:rc=%d" % sv["rc"], dict(label=label, sources=srcs))], n
    after = w.batch(scan_all("r0", bufs)); n += len(bufs)
    if obs(after) != o0:
        viol.append(("C08:original-changed-by-save", dict(label=label, sources=srcs)))
    if w.cmd("info 0") != info0:
        viol.append(("C08:original-info-changed-by-save", dict(label=label, sources=srcs)))
    # file API: the saved file equals the stream image whatever the destination held before (absent, empty, shorter, longer), and loads through yr_rules_load
    for pre in ((-1, 0, 3, sv["len"] - 1, sv["len"] + 1, 3 * sv["len"]) if deep else (-1, 3 * sv["len"])):
        r = w.batch(["savefile 0 2" + (" pre=%d" % pre if pre >= 0 else ""), "blobcmp 0 2", "load 1 2 file=1", "info 1", "rdestroy 1"]); n += 1
        where = "fresh-path" if pre < 0 else "over-longer-file" if pre > sv["len"] else "over-shorter-file"
        if r[0]["rc"] != 0: viol.append(("C08:file-api:save-failed:%s" % where, dict(label=label, reply=r[0]))); continue
        if not r[1]["eq"]: viol.append(("C08:file-api:file-differs-from-stream-image:%s" % where, dict(label=label, existing_bytes=pre, image_bytes=sv["len"], file_bytes=r[0]["len"], firstdiff=r[1]["firstdiff"])))
        if r[2]["rc"] != 0: viol.append(("C08:file-api:load-of-saved-file-failed:%s" % where, dict(label=label, rc=r[2]["rc"], existing_bytes=pre)))
        elif r[3] != info0: viol.append(("C08:file-api:loaded-info-differs:%s" % where, dict(label=label)))
    chunks = CHUNKS if deep else [1, 7, 0]
    for c in chunks:
        r = w.batch(["load 1 0 chunk=%d" % c, "info 1"] + scan_all("r1", bufs) + ["save 1 1", "blobcmp 0 1"]); n += len(bufs)
        if r[0]["rc"] != 0:
            viol.append(("C08:load-failed:chunk=%s:rc=%d" % ("whole" if c == 0 else "small" if c < 64 else "large", r[0]["rc"]), dict(label=label, chunk=c, sources=srcs))); continue
        if r[1] != info0:
            a, b = info0, r[1]
            what = "ext" if a.get("ext") != b.get("ext") else "rules-tags-metas-strings"
            viol.append(("C08:loaded-info-differs:%s" % what, dict(label=label, chunk=c, original=a, loaded=b, sources=srcs)))
        if obs(r[2:2 + len(bufs)]) != o0:
            viol.append(("C08:loaded-behaves-differently", dict(label=label, chunk=c, sources=srcs, original=json.loads(o0), loaded=json.loads(obs(r[2:2 + len(bufs)])))))
        if not r[-1]["eq"]:
            viol.append(("C08:resave-of-loaded-differs", dict(label=label, chunk=c, firstdiff=r[-1]["firstdiff"], sources=srcs)))
    # loaded rules must not depend on the original still being alive: destroy the original, churn the heap, scan again
    r = w.batch(["load 2 0 chunk=5", "rdestroy 0", "rdestroy 1", "compiler 1", "add 1 - " + yv.hx('rule churn { strings: $a = "churn" condition: $a }'), "getrules 1 3", "cdestroy 1", "rdestroy 3"] + scan_all("r2", bufs)); n += len(bufs)
    if obs(r[-len(bufs):]) != o0:
        viol.append(("C08:loaded-depends-on-original-being-alive", dict(label=label, sources=srcs)))
    return viol, n


def run_chunk(arg):
    variant, deep, items = arg
    w = yv.get_worker(variant)
    K = constructs(); bufs = buffers()
    out = []
    for idxs in items:
        parts = [(K[i], "r%d_%s" % (j, K[i]["name"])) for j, i in enumerate(idxs)]
        label = "+".join(K[i]["name"] for i in idxs)
        try:
            viol, n = check_set(w, label, parts, bufs, deep)
        except (yv.WorkerDied, yv.WorkerHang) as e:
            yv.drop_worker(variant); w = yv.get_worker(variant)
            err = getattr(e, "err", "")
            kind = "assert" if "Assertion" in err else "asan" if "AddressSanitizer" in err else "signal"
            viol, n = [("C08:crash:%s:on=%s" % (kind, (e.cmd.split() or ["?"])[0]), dict(label=label, error=str(e), stderr=err[-2500:]))], 0
        out.append((label, viol, n))
    return out


def image_hashes(cmds, setarch=False):
    """run the commands in a fresh worker process and return the 'save' hashes"""
    exe = yv.worker_exe("plain")
    env = dict(os.environ)
    argv = (["setarch", "-R"] if setarch else []) + [exe, yv.TMP]
    p = subprocess.run(argv, input=("\n".join(cmds) + "\n").encode(), stdout=subprocess.PIPE, stderr=subprocess.PIPE, env=env, timeout=120)
    return [json.loads(l).get("hash") for l in p.stdout.decode().splitlines() if '"hash"' in l]


def dense_automata(ck, quick):
    """automata whose states have children for high byte values (0xFF included): the transition table is packed first-fit, so rows end up at the very end of the
    table; what the scanner can see in memory beyond the used part of a buffer does not exist in the saved image. Prefixes of three signature lists; every
    signature is probed on the original and on the loaded rules (each must match exactly its own rule on both)"""
    w = yv.get_worker("asan")
    lists = []
    L1 = [(b0, 0x11, 0x41, 0x42) for b0 in range(0xEF, 0xFF)] + [(0xFE, yy, 0x41, 0x42) for yy in list(range(0x00, 0x100, 0x10)) + [0xFF]]
    L2 = [(0xFF, yy, 0x51, 0x52) for yy in (0xFF, 0xFE, 0x00, 0x80)] + [(b0, 0xFF, 0x61, 0x62) for b0 in range(0xF0, 0x100)] + [(0xFF, 0xFF, 0xFF, yy) for yy in (0xFF, 0x00)]
    L3 = [(b0, b1, 0x71, 0x72) for b0 in (0xFD, 0xFE, 0xFF) for b1 in (0xFD, 0xFE, 0xFF, 0x00)] + [(0x00, 0xFF, 0x73, 0x74), (0x01, 0xFF, 0x73, 0x74)]
    lists = [("first-bytes-EF..FE", L1), ("ff-children", L2), ("corner", L3)]
    n = 0
    for lname, L in lists:
        sizes = range(1, len(L) + 1) if not quick else sorted(set(list(range(1, len(L) + 1, 3)) + [len(L) - 1, len(L)]))
        for k in sizes:
            sigs = L[:k]
            text = "\n".join("rule q%d { strings: $s = { %s } condition: $s }" % (i, " ".join("%02X" % b for b in sg)) for i, sg in enumerate(sigs))
            cmds = ["reset", "compiler 0", "add 0 - " + yv.hx(text), "getrules 0 0", "cdestroy 0", "save 0 0", "load 1 0 chunk=0"]
            for sg in sigs:
                d = yv.hx(b"\x00" + bytes(sg) + b"\x00")
                cmds += ["scan target=r0 via=mem ml=0 data=" + d, "scan target=r1 via=mem ml=0 data=" + d]
            try:
                rep = w.batch(cmds)
            except (yv.WorkerDied, yv.WorkerHang) as e:
                yv.drop_worker("asan"); w = yv.get_worker("asan")
                ck.violation("C08:dense-automaton:crash", dict(list=lname, signatures=k, error=str(e), stderr=getattr(e, "err", "")[-1500:])); continue
            if rep[2]["errors"] or rep[5]["rc"] != 0 or rep[6]["rc"] != 0:
                ck.violation("C08:dense-automaton:compile-save-or-load-failed", dict(list=lname, signatures=k, replies=rep[2:7])); continue
            for i, sg in enumerate(sigs):
                o, l = rep[7 + 2 * i], rep[8 + 2 * i]
                mo = [m[1] for m in o["t"] if m[0] == "m"]; ml = [m[1] for m in l["t"] if m[0] == "m"]
                n += 1
                data = b"\x00" + bytes(sg) + b"\x00"
                want = ["default:q%d" % j for j, s2 in enumerate(sigs) if bytes(s2) in data]
                if mo != want or ml != mo:
                    ck.violation("C08:dense-automaton:%s" % ("loaded-rules-differ-from-original" if mo == want else "original-rules-differ-from-naive-search"),
                                 dict(list=lname, signatures=k, probe=" ".join("%02X" % b for b in sg), original=mo, loaded=ml))
                    break
    ck.sub("dense-automata", probes=n)
    yv.drop_worker("asan")
    return n


def address_independence(ck, K, bufs):
    n = 0
    for i, c in enumerate(K):
        srcs, ext = rule_text([(c, "r_" + c["name"])])
        comp = lambda ci, ri: (["compiler %d" % ci] + ["defc %d %s %s %s" % (ci, nm, t, yv.hx(v) if t == "s" else v) for (nm, t, v) in ext] +
                               ["add %d %s %s" % (ci, ns, yv.hx(t)) for ns, t in srcs] + ["getrules %d %d" % (ci, ri), "cdestroy %d" % ci])
        junk = ["compiler 2", "add 2 - " + yv.hx("rule junk { strings: " + " ".join('$j%d = "junk%d"' % (k, k) for k in range(30)) + " condition: any of them }"), "getrules 2 5", "cdestroy 2"]
        cmds = comp(0, 0) + ["save 0 0"] + junk + comp(1, 1) + ["save 1 1", "blobcmp 0 1"]
        hs = []
        for mode in ("aslr-1", "aslr-2", "no-aslr"):
            h = image_hashes(cmds, setarch=(mode == "no-aslr")); hs.append(h); n += 1
        flat = [x for h in hs for x in h]
        if len(flat) != 6 or len(set(flat)) != 1:
            ck.violation("C08:saved-image-depends-on-addresses-or-heap-history", dict(construct=c["name"], hashes=dict(zip(("aslr-1", "aslr-2", "no-aslr"), hs)), sources=srcs))
    ck.sub("address-independence", constructs=len(K), processes=n, modes=["two compiles in one process after different heap histories", "two processes with ASLR", "setarch -R"])
    return n


def histories(ck, K, bufs):
    """depth<=3 histories over {define_r of each type, save, load, scan} on a rule set with the four externals"""
    w = yv.get_worker("asan")
    idx = {c["name"]: c for c in K}
    parts = [(idx[n], "h_" + n) for n in ("extint", "extfloat", "extbool", "extstring", "text")]
    srcs, ext = rule_text(parts)
    setup = ["reset", "compiler 0"] + ["defc 0 %s %s %s" % (n, t, yv.hx(v) if t == "s" else v) for (n, t, v) in ext] + \
            ["add 0 %s %s" % (ns, yv.hx(t)) for ns, t in srcs] + ["getrules 0 0", "cdestroy 0"]
    ops = {"defi": "defr 0 xi i 9", "deff": "defr 0 xf f 5.5", "defb": "defr 0 xb b 0", "defs": "defr 0 xstr s " + yv.hx(b"no"), "defs2": "defr 0 xstr s " + yv.hx(b"a-mid-zz-longer"),
           "save": "save 0 0", "saveload": None, "scan": None}
    names = list(ops)
    n = 0
    for L in (1, 2, 3):
        for seq in itertools.product(names, repeat=L):
            if "save" not in seq and "saveload" not in seq: continue
            cmds = list(setup); marks = []
            for o in seq:
                if o == "scan": cmds += scan_all("r0", bufs[:4])
                elif o == "saveload":
                    marks.append(len(cmds)); cmds += ["save 0 0", "load 1 0 chunk=3", "info 0", "info 1"] + scan_all("r0", bufs[:4]) + scan_all("r1", bufs[:4])
                else: cmds.append(ops[o])
            n += 1
            try:
                rep = w.batch(cmds)
            except (yv.WorkerDied, yv.WorkerHang) as e:
                err = getattr(e, "err", "")
                yv.drop_worker("asan"); w = yv.get_worker("asan")
                kind = "assert" if "Assertion" in err else "asan" if "AddressSanitizer" in err else "signal"
                after_str = "after-string-redefinition" if any(x in ("defs", "defs2") for x in seq) else "no-string-redefinition"
                ck.violation("C08:history:crash:%s:on=%s:%s" % (kind, (e.cmd.split() or ["?"])[0], after_str), dict(history=list(seq), commands=cmds, error=str(e), stderr=err[-2500:]))
                continue
            for m in marks:
                sv, ld, i0, i1 = rep[m:m + 4]
                if sv["rc"] != 0 or ld["rc"] != 0:
                    ck.violation("C08:history:save-or-load-failed", dict(history=list(seq), save=sv, load=ld)); continue
                if i0 != i1:
                    ck.violation("C08:history:loaded-info-differs", dict(history=list(seq), original=i0, loaded=i1))
                if obs(rep[m + 4:m + 8]) != obs(rep[m + 8:m + 12]):
                    ck.violation("C08:history:loaded-behaves-differently", dict(history=list(seq)))
    ck.sub("histories", sequences=n, depth=3)
    yv.drop_worker("asan")
    return n


def main():
    ck = yv.Check("C08", "exploration")
    quick = ck.tier == "quick"
    K = constructs(); bufs = buffers()
    n_addr = address_independence(ck, K, bufs)
    n_hist = histories(ck, K, bufs) + dense_automata(ck, quick)
    singles = [(i,) for i in range(len(K))]
    pairs = [(i, j) for i in range(len(K)) for j in range(len(K)) if i != j]
    chunks = [("asan", True, c) for c in yv.chunked(singles, 3)]
    chunks += [("asan" if quick else "plain", False, c) for c in yv.chunked(pairs, 12)]
    if not quick:
        chunks += [("asan", True, c) for c in yv.chunked(pairs, 12)]
        triples = [(i, j, k) for i in range(0, len(K), 3) for j in range(1, len(K), 3) for k in range(2, len(K), 3) if len({i, j, k}) == 3]
        chunks += [("plain", False, c) for c in yv.chunked(triples, 12)]
    sets = nontriv = 0
    for res in yv.pmap(run_chunk, chunks, ck, prebuild=("asan", "plain")):
        for (label, viol, n) in res:
            sets += 1
            ck.cov["evaluations"] += n
            if n: nontriv += 1
            for sig, d in viol:
                ck.violation(sig, d)
            if sets % 301 == 0 and not viol:
                ck.sample(dict(rule_set=label, scans_compared=n, chunkings=CHUNKS if "+" not in label else [1, 7, "whole"]))
    ck.cov["evaluations"] += n_addr + n_hist
    ck.cov["distinct_nontrivial"] = nontriv
    ck.cov["programs"] = sets
    ck.cov["rule"] = ("rule sets = each of %d constructs alone (9 stream chunkings, under ASan) and every ordered pair (3 chunkings); a case = one rule set put through "
                      "compile -> scan 12 buffers -> save -> scan again -> load(chunk c) -> info + scan -> re-save -> destroy original -> scan loaded; non-trivial = "
                      "rule sets that compiled and were compared; plus per-construct image comparison over heap histories / ASLR / setarch -R and all depth<=3 "
                      "histories over {define_r x5, save, save+load, scan}" % len(K))
    ck.finish()


if __name__ == "__main__":
    main()
