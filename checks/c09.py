#!/usr/bin/env python3
"""C09 - concurrent scans that share one rule set are race-free and deterministic.
Stateless model checking of the IMPLEMENTATION: 2-3 real threads (own scanner each, one shared YR_RULES) run under a cooperative
scheduler (harness/sched.c); scheduling points = libyara's exception_handler_mutex lock/unlock and sigaction calls (compile-time
renames, no source edit), every callback invocation (module messages, console.log inside loops, rule messages) and the API
boundaries of the driver.  All schedules with at most P preemptions are enumerated (DFS with prefix replay, one forked child per
execution) and pruned on a hash of the observable state; for two threads the bound is lifted (complete).
Oracles: every thread's trace and return code equal its solo run; in every state usecount == number of threads inside a try
block, yara's SIGBUS handler is installed while any thread is inside, the saved 'old' handler is the application's; at
quiescence usecount == 0 and the application's handler is back; no deadlock; no crash.
A separate free-running ThreadSanitizer pass looks for unsynchronised accesses (a detector, not an enumeration)."""
import json, os, subprocess, sys, time
sys.path.insert(0, os.path.join(os.path.dirname(os.path.abspath(__file__)), "..", "lib"))
import yv

H = yv.H


def driver_exe(variant="sched"):
    return yv.yvbuild.link(variant, "c09", [os.path.join(H, "c09.c"), os.path.join(H, "yvsched.c"), os.path.join(H, "yvcommon.c")])


SMALL_SCENARIOS = ("tmm",)      # run on the build with scaled limits (8 matches per string), same source


def tsan_exe():
    return yv.yvbuild.link("tsan", "c09tsan", [os.path.join(H, "c09tsan.c"), os.path.join(H, "yvcommon.c")])


class Driver:
    def __init__(self, variant="sched"):
        os.makedirs(yv.TMP, exist_ok=True)
        self.p = subprocess.Popen([driver_exe(variant), yv.TMP], stdin=subprocess.PIPE, stdout=subprocess.PIPE, stderr=subprocess.DEVNULL)

    def run(self, scenario, sched):
        self.p.stdin.write(("RUN %s %s\n" % (scenario, ",".join(map(str, sched)) or "-")).encode()); self.p.stdin.flush()
        return json.loads(self.p.stdout.readline())


_drv = {}
def run_one(arg):
    scenario, sched = arg
    v = "schedsmall" if scenario in SMALL_SCENARIOS else "sched"
    d = _drv.get((os.getpid(), v))
    if d is None:
        d = Driver(v); _drv[(os.getpid(), v)] = d
    return scenario, sched, d.run(scenario, sched)


def explore(ck, scenario, bound, stats):
    """DFS over schedules, executed level by level in parallel; returns counters"""
    import multiprocessing as mp
    seen = {}             # (state hash, chosen thread) -> smallest number of preemptions it was reached with
    states = set()
    execs = 0
    frontier = [[]]
    outcomes = set()
    ctx = mp.get_context("fork")
    with ctx.Pool(16) as pool:
        while frontier and not ck.expired():
            results = pool.map(run_one, [(scenario, s) for s in frontier], chunksize=4)
            nxt = []
            for (_, sched, r) in results:
                execs += 1
                if "crash" in r:
                    err = r.get("stderr", "")
                    kind = ("asan:" + err.split("AddressSanitizer: ")[1].split()[0]) if "AddressSanitizer: " in err else "signal-%s" % r["crash"]
                    report(ck, scenario, "crash:" + kind, sched, r); continue
                pts = r["points"]
                if r["diverged"]:
                    ck.violation("C09:harness:schedule-diverged-on-replay", dict(scenario=scenario, schedule=sched)); continue
                if r["deadlock"]: report(ck, scenario, "deadlock", sched, r)
                for v in r["viol"]: report(ck, scenario, v, sched, r)
                outcomes.add(json.dumps([r["traces"], r["rcs"]]))
                choices = [p[2] for p in pts]
                pre = 0
                pre_at = []
                for i, p in enumerate(pts):
                    pre_at.append(pre)
                    tid, en, ch = p[0], p[1], p[2]
                    if tid >= 0 and (en >> tid) & 1 and ch != tid: pre += 1
                for i in range(len(sched), len(pts)):
                    tid, en, ch, label, h = pts[i][:5]
                    states.add(h)
                    seen.setdefault((h, ch), pre_at[i])
                    for alt in range(8):
                        if not (en >> alt) & 1 or alt == ch: continue
                        cost = pre_at[i] + (1 if (tid >= 0 and (en >> tid) & 1 and alt != tid) else 0)
                        if bound is not None and cost > bound: continue
                        key = (h, alt)
                        if key in seen and seen[key] <= cost: continue
                        seen[key] = cost
                        nxt.append(choices[:i] + [alt])
                for i in range(min(len(sched), len(pts))):
                    states.add(pts[i][4])
            frontier = nxt
    stats["states"] += len(states); stats["transitions"] += len(seen); stats["executions"] += execs
    complete = not frontier
    ck.sub("schedules:" + scenario, preemption_bound="unbounded" if bound is None else bound, executions=execs, states=len(states), transitions=len(seen),
           distinct_outcomes=len(outcomes), completed=complete)
    if not complete: ck.cov["exhaustive"] = False
    return outcomes


_reported = {}
def report(ck, scenario, what, sched, r):
    sig = "C09:%s" % what
    if sig in _reported: return
    # replay the schedule twice and demand identical observations before reporting
    d = Driver("schedsmall" if scenario in SMALL_SCENARIOS else "sched")
    a, b = d.run(scenario, sched), d.run(scenario, sched)
    d.p.kill()
    same = json.dumps(a) == json.dumps(b)
    _reported[sig] = 1
    if not same:
        ck.violation("C09:harness:nondeterministic-replay", dict(scenario=scenario, schedule=sched, first=a, second=b)); return
    ck.violation(sig, dict(scenario=scenario, schedule=sched, result={k: v for k, v in r.items() if k != "points"}, points=[[p[0], p[2], p[3]] for p in r.get("points", [])][:400],
                           replay="echo 'RUN %s %s' | build/%s/c09 build/tmp" % (scenario, ",".join(map(str, sched)) or "-", "schedsmall" if scenario in SMALL_SCENARIOS else "sched")))


def tsan_pass(ck, quick):
    exe = tsan_exe()
    env = dict(os.environ); env["TSAN_OPTIONS"] = "halt_on_error=0:exitcode=66:report_signal_unsafe=0"
    total = 0
    for T, rounds in ((2, 200), (4, 150), (8, 100)) + (() if quick else ((32, 60),)):
        p = subprocess.run([exe, str(T), str(rounds)], stdout=subprocess.PIPE, stderr=subprocess.PIPE, env=env, timeout=900)
        err = p.stderr.decode(errors="replace")
        total += T * rounds
        if "ThreadSanitizer" in err:
            frames = [l.strip() for l in err.splitlines() if "/libyara/" in l][:6]
            where = frames[0].split(" in ")[1].split(" ")[0] if frames and " in " in frames[0] else "?"
            ck.violation("C09:tsan:data-race:%s" % where, dict(threads=T, report=err[:3000]))
        elif p.returncode != 0:
            ck.violation("C09:tsan:trace-differs-or-crash:rc=%d" % p.returncode, dict(threads=T, stdout=p.stdout.decode()[-1500:], stderr=err[-1500:]))
    # SIGBUS through the shared handler while other threads scan (plain build, free running)
    bus = yv.yvbuild.link("plain", "c09bus", [os.path.join(H, "c09bus.c"), os.path.join(H, "yvcommon.c")])
    nbus = 0
    for T, rounds in ((2, 300), (4, 300), (8, 200)):
        for rep in range(2 if quick else 6):
            p = subprocess.run([bus, str(T), str(rounds), yv.TMP], stdout=subprocess.PIPE, stderr=subprocess.PIPE, timeout=600)
            nbus += T * rounds
            if p.returncode != 0:
                what = {3: "wrong-result-while-another-thread-takes-sigbus", 4: "handler-or-usecount-wrong-after-sigbus-scans", 9: "sigbus-reached-the-applications-handler"}.get(p.returncode, "crash-rc=%d" % p.returncode)
                ck.violation("C09:sigbus:%s" % what, dict(threads=T, rounds=rounds, stdout=p.stdout.decode()[-800:], stderr=p.stderr.decode()[-800:]))
    ck.sub("sigbus-free-running", scans=nbus, note="one thread faults on a truncated mapping inside yara's try block (ERROR_COULD_NOT_MAP_FILE expected) while the others scan; detector over OS schedules")
    total += nbus
    ck.sub("tsan-free-running", scans=total, thread_counts=[2, 4, 8] + ([] if quick else [32]), note="detector over OS schedules, not an enumeration; not counted in states/transitions")
    return total


def main():
    ck = yv.Check("C09", "model_checking")
    quick = ck.tier == "quick"
    driver_exe()
    stats = dict(states=0, transitions=0, executions=0)
    driver_exe("schedsmall")
    plan = [("two", 2), ("same-size", 2), ("fast", 2), ("tmm", 2), ("files", 2), ("abort", 2), ("error", 2), ("rules-level", 2), ("three", 1 if quick else 2)]
    if not quick:
        plan = [("two", None), ("same-size", None), ("fast", None), ("tmm", None), ("files", 3), ("abort", 3), ("error", 3), ("rules-level", 3), ("three", 2)]
    outs = {}
    for scen, bound in plan:
        outs[scen] = explore(ck, scen, bound, stats)
    n_tsan = tsan_pass(ck, quick)
    # per-scanner timeouts are private only if the deadline is measured on a clock that other threads' work does not advance
    w = yv.get_worker("plain")
    rep = w.batch(["reset", "compiler 0", "add 0 - " + yv.hx("rule r { condition: for all i in (0..1000) : (i >= 0) }"), "getrules 0 0", "cdestroy 0", "scanner 0 0", "scan target=s0 via=mem timeout=5 data=6162"])
    if rep[-1].get("clk") in (2, 3):
        ck.violation("C09:timeout-clock-shared-between-threads", dict(clock_id=rep[-1].get("clk"), note="2 = CLOCK_PROCESS_CPUTIME_ID: advances with the CPU time of ALL threads; 3 = per-thread CPU time (not wall time)"))
    ck.sub("timeout-clock", clock_id=rep[-1].get("clk"))
    yv.drop_worker("plain")
    ck.cov["states"] = max(1, stats["states"])
    ck.cov["transitions"] = max(1, stats["transitions"])
    ck.cov["traces_validated_against_impl"] = stats["executions"]
    ck.cov["evaluations"] = stats["executions"] + n_tsan
    ck.cov["distinct_nontrivial"] = stats["states"]
    d = Driver(); r = d.run("two", [0, 0, 0, 1, 1, 0]); d.p.kill()
    ck.sample(dict(scenario="two", schedule_prefix=[0, 0, 0, 1, 1, 0], points=[[p[0], p[2], p[3]] for p in r["points"]][:40], thread_traces=r["traces"]))
    ck.cov["rule"] = ("executions = schedules of the real driver (2-3 threads: create scanner, define external, scan, destroy; variants with callback abort / error, the "
                      "rules-level entry point, two different buffers of equal size whose module values are logged, one thread scanning in fast mode with a timeout set while the other scans with the defaults (match data is part of the trace), a scan by path next to two scans through one descriptor (the descriptor table is process-wide), and - on the build with the match limit scaled to 8 - one scan that exceeds the limit and continues while the other needs every match of that string) enumerated by DFS with prefix replay; states = distinct hashes of (per-thread progress, mutex owner, usecount, installed / saved handler, "
                      "trace lengths) seen at scheduling points; transitions = distinct (state, thread chosen); preemption bounds per scenario in subspaces")
    ck.assumptions += ["the scheduler serialises threads: plain data races are only visible to the free-running TSan pass", "SIGBUS delivery itself is not scheduled (mapped-file faults run in the TSan/free pass only)"]
    ck.finish()


if __name__ == "__main__":
    main()
