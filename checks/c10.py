#!/usr/bin/env python3
"""C10 - a scanner's results do not depend on its scan history.
Explicit-state search over histories of scans (kind x outcome) on ONE real scanner.
 * unmerged part: every op sequence of length <= L; every op's observation must equal the observation of the same op on
   a freshly created scanner with the same settings;
 * merged part: BFS to a larger depth where histories are merged on the scanner's persistent fields (read from the struct).
 * after every history the scanner is destroyed and live allocations must be back at the baseline.
Built on the `small` variant (match limit 8, chaining threshold 3) so that too-many-matches and chained strings are
reachable with tiny buffers."""
import hashlib, itertools, json, os, sys
sys.path.insert(0, os.path.join(os.path.dirname(os.path.abspath(__file__)), "..", "lib"))
import yv

VAR = "small"
TXT1 = b"xx abc abc yy"
BUFS = None


def bufs():
    global BUFS
    if BUFS is None:
        BUFS = dict(PE=yv.blob("PE32_FILE"), ELF=yv.blob("ELF32_FILE"), TXT1=TXT1, TXT0=b"nothing here!", EMPTY=b"", MANY=b"q" * 12, MANY2=b"w" * 14 + b" " + b"v" * 12,
                    CHAIN=b"ab....yy ab", FIB=b"f" + b"a" * 10 + b" g" + b"a" * 12, FIB2=b"g" + b"a" * 12, FIBOK=b"zz faz gb zz", REP1=b"ab1", REP2=b"ab12345cd ef1\nxx", REP3=b"ab1\n2cd ef12gh")
    return BUFS


def rules_text():
    md5 = hashlib.md5(TXT1).hexdigest()
    return """
import "pe" import "elf" import "hash" import "math" import "console"
rule ep { condition: entrypoint >= 0 }
rule fs0 { condition: filesize == 0 }
rule fs { condition: filesize > 12 }
rule a { strings: $a = "abc" condition: $a }
rule a2 { strings: $a = "abc" condition: #a == 2 and @a[1] == 3 }
rule q { strings: $q = "q" $a = "abc" condition: $q or $a }
rule qh { strings: $h = { 77 ?? 77 } condition: $h }
rule qr { strings: $r = /v[vx]/ condition: $r }
rule re { strings: $r = /ab+c/ condition: $r }
rule chain { strings: $h = { 61 62 [4-] 79 79 } condition: $h }
rule fib { strings: $f = /f([a-c]{1,3}\\.?){1,4}z/ condition: $f }
rule rep { strings: $r = /ab.{2,6}cd/ $l = /ef.{2,6}?gh/ $h = { 61 62 [2-6] (63|43) 64 } condition: any of them }
rule fib2 { strings: $g = /ga*a*a*a*a*b/ condition: $g }
rule ispe { condition: pe.number_of_sections > 0 }
rule peep { condition: defined pe.entry_point }
rule iself { condition: defined elf.type }
rule md5 { condition: hash.md5(0, filesize) == "%s" }
rule ent { condition: math.entropy(0, filesize) > 1.0 }
rule log { condition: console.log("fs=", filesize) }
rule ext1 { condition: ext == "v1" }
rule mtch { condition: ext matches /v[0-9]/ }
rule extmod { condition: tests == 5 }
""" % md5


def scan_cmd(buf, extra=""):
    return "scan target=s0 via=mem flags=0 timeout=0 data=%s %s" % (yv.hx(bufs()[buf]), extra)


def build_ops(w):
    """alphabet of operations; outcome positions are derived from the normal traces of this very tree"""
    ops = []
    for b in ("PE", "ELF", "TXT1", "TXT0", "EMPTY", "MANY", "MANY2", "CHAIN", "FIB", "FIB2", "FIBOK", "REP1", "REP2", "REP3"):
        ops.append(("scan:%s:normal" % b, scan_cmd(b)))
    w.batch(["reset"]); compile_rules(w)
    w.cmd("scanner 0 0")
    n_txt = len(w.cmd(scan_cmd("TXT1"))["t"])
    for k in range(n_txt):
        ops.append(("scan:TXT1:abort@%d" % k, scan_cmd("TXT1", "cb=%d:A" % k)))
        ops.append(("scan:TXT1:error@%d" % k, scan_cmd("TXT1", "cb=%d:E" % k)))
    n_pe = len(w.cmd(scan_cmd("PE"))["t"])
    for k in list(range(0, 10)) + [n_pe - 3]:
        ops.append(("scan:PE:error@%d" % k, scan_cmd("PE", "cb=%d:E" % k)))
    ops.append(("scan:PE:abort@10", scan_cmd("PE", "cb=10:A")))
    # timeouts under the harness-owned clock: jump past the deadline at poll j, for every poll of the untimed run
    for b in ("TXT1", "PE", "MANY"):
        polls = w.cmd("scan target=s0 via=mem flags=0 timeout=1 clock=0 data=%s" % yv.hx(bufs()[b]))["polls"]
        for j in range(1, polls + 1):
            ops.append(("scan:%s:timeout@poll%d" % (b, j), "scan target=s0 via=mem flags=0 timeout=1 clock=%d:5000000000 data=%s" % (j, yv.hx(bufs()[b]))))
    # too many matches: position of the tmm message in the MANY trace
    tr = w.cmd(scan_cmd("MANY"))["t"]
    ktmm = [i for i, m in enumerate(tr) if m[0] == "tmm"]
    for k in ktmm[:1]:
        ops.append(("scan:MANY:tmm-abort", scan_cmd("MANY", "cb=%d:A" % k)))
        ops.append(("scan:MANY:tmm-error", scan_cmd("MANY", "cb=%d:E" % k)))
    # the same for a hex string with a wildcard (fast regexp matcher) and a regexp (general matcher): one op per too-many-matches message
    tr2 = w.cmd(scan_cmd("MANY2"))["t"]
    for j, k in enumerate([i for i, m in enumerate(tr2) if m[0] == "tmm"][:2]):
        ops.append(("scan:MANY2:tmm%d-abort" % j, scan_cmd("MANY2", "cb=%d:A" % k)))
        ops.append(("scan:MANY2:tmm%d-error" % j, scan_cmd("MANY2", "cb=%d:E" % k)))
    # suspended by a not-ready block and resumed / abandoned
    base = "scan target=s0 via=blocks flags=0 timeout=0 data=%s blocks=6,7 " % yv.hx(TXT1)
    ops.append(("scan:TXT1:blocks", base))
    ops.append(("scan:TXT1:notready-resumed", base + "nr=0.1.1"))
    ops.append(("scan:TXT1:notready-first-resumed", base + "nr=0.0.2"))
    ops.append(("scan:TXT1:notready-abandoned", base + "nr=0.1.1 abandon=0"))
    # executable images through the iterator: entry point / module state computed from the first block, then suspended
    for b, split in (("ELF", "200,128"), ("PE", "256,100")):
        eb = "scan target=s0 via=blocks flags=0 timeout=0 data=%s blocks=%s " % (yv.hx(bufs()[b]), split)
        ops.append(("scan:%s:blocks" % b, eb))
        ops.append(("scan:%s:notready-resumed" % b, eb + "nr=0.1.1"))
        ops.append(("scan:%s:notready-abandoned" % b, eb + "nr=0.1.1 abandon=0"))
    ops.append(("scan:PE:fast", "scan target=s0 via=mem flags=1 timeout=0 data=%s" % yv.hx(bufs()["PE"])))
    ops.append(("defs:v1", "defs 0 ext s " + yv.hx(b"v1")))
    ops.append(("defs:w", "defs 0 ext s " + yv.hx(b"w")))
    return ops, dict(tmm_positions=ktmm, msgs_txt1=n_txt)


def compile_rules(w):
    # `tests` is an external variable here, and the name of a built-in module that these rules do not import (externals and modules share the scanner's object table)
    rep = w.batch(["compiler 0", "defc 0 ext s " + yv.hx(b"v0"), "defc 0 tests i 5", "add 0 - " + yv.hx(rules_text()), "getrules 0 0", "cdestroy 0"])
    assert rep[3]["errors"] == 0 and rep[4]["rc"] == 0, rep


def ext_after(hist, ops):
    e = "v0"
    for i in hist:
        n = ops[i][0]
        if n.startswith("defs:"):
            e = n[5:]
    return e


def obs(rep):
    """comparable observation of a scan reply (everything the callback saw + return codes)"""
    return json.dumps([rep.get("t"), rep.get("rc"), rep.get("calls")], sort_keys=True)


_state = {}


def setup_worker():
    w = yv.get_worker(VAR)
    if not getattr(w, "_c10", None):
        ops, info = build_ops(w)
        w.batch(["reset"]); compile_rules(w)
        fresh = {}
        for ext in ("v0", "v1", "w"):
            for i, (name, cmd) in enumerate(ops):
                pre = ["scanner 0 0"] + (["defs 0 ext s " + yv.hx(ext)] if ext != "v0" else [])
                r = w.batch(pre + [cmd, "sdestroy 0"])
                fresh[(ext, i)] = obs(r[len(pre)]) if not name.startswith("defs:") else json.dumps(r[len(pre)])
        # baseline after a warm-up pass, so that one-time initialisations (first use of a module, of libcrypto, ...) are
        # not mistaken for leaks; measured twice to make sure it is stable
        base = w.cmd("live")["live"]
        r = w.batch(["scanner 0 0", ops[0][1], ops[2][1], "sdestroy 0", "live"])
        assert r[-1]["live"] == base, ("baseline not stable", base, r[-1])
        w._c10 = (ops, fresh, base, info)
    return w


def run_hist(w, hist, want_state=False):
    """replays history on a new scanner; returns (violation or None, state key, per-op observation)"""
    ops, fresh, base, info = w._c10
    cmds = ["scanner 0 0"] + [ops[i][1] for i in hist] + (["sstate 0"] if want_state else []) + ["sdestroy 0", "live"]
    rep = w.batch(cmds)
    ext = "v0"
    for pos, i in enumerate(hist):
        name = ops[i][0]
        r = rep[1 + pos]
        if name.startswith("defs:"):
            if r.get("rc") != 0:
                return ("C10:define-failed", dict(reply=r)), None
            ext = name[5:]
            continue
        if obs(r) != fresh[(ext, i)]:
            prev = [ops[j][0] for j in hist[:pos]]
            fr, ru = json.loads(fresh[(ext, i)]), json.loads(obs(r))
            def msgs(t): return {json.dumps(m) for m in (t or [])}
            diff = msgs(fr[0]) ^ msgs(ru[0])
            names = sorted(set((json.loads(m)[1].split(":")[-1] if len(json.loads(m)) > 1 else json.loads(m)[0]) for m in diff))
            what = ",".join(names) + (":rc" if fr[1] != ru[1] else "") + (":calls" if fr[2] != ru[2] else "")
            aband = ":history-has-abandoned-suspended-scan" if any("abandoned" in p for p in prev) else ""
            return ("C10:stale:%s%s" % (what, aband),
                    dict(history=[ops[j][0] for j in hist[:pos + 1]], commands=cmds, fresh=json.loads(fresh[(ext, i)]) if True else None,
                         reused=json.loads(obs(r)))), None
    base = getattr(w, "_c10live", base)        # leaks are sticky: judge each history by its own delta
    w._c10live = rep[-1]["live"]
    if rep[-1]["live"] != base:
        # minimise: which single operations leak on their own?
        culprits = []
        for i in sorted(set(hist)):
            r1 = w.batch(["live", "scanner 0 0", ops[i][1], "sdestroy 0", "live"])
            if r1[-1]["live"] != r1[0]["live"]:
                culprits.append(ops[i][0].split("@")[0])
            w._c10live = r1[-1]["live"]
        sig = ("C10:leak:op=" + sorted(set(culprits))[0]) if culprits else ("C10:leak:sequence=" + ">".join(ops[j][0].split("@")[0] for j in hist))
        return (sig, dict(history=[ops[j][0] for j in hist], commands=cmds, live_after=rep[-1]["live"], live_before=base,
                          single_ops_that_leak=culprits)), None
    key = None
    if want_state:
        st = rep[1 + len(hist)]
        st.pop("file_size", None)   # overwritten at the start of evaluation; cannot influence a later scan's observation
        key = json.dumps([st, ext], sort_keys=True)
    return None, key


def chunk_unmerged(chunk):
    w = setup_worker()
    out = []
    for hist in chunk:
        try:
            v, _ = run_hist(w, hist)
        except (yv.WorkerDied, yv.WorkerHang) as e:
            ops = w._c10[0]
            v = ("C10:crash:after=%s" % ops[hist[-2]][0] if len(hist) > 1 else "C10:crash", dict(history=[ops[j][0] for j in hist], error=str(e), stderr=getattr(e, "err", "")[-3000:]))
            yv.drop_worker(VAR); w = setup_worker()
        out.append(v)
    return out


def chunk_merged(chunk):
    w = setup_worker()
    out = []
    for hist in chunk:
        try:
            v, key = run_hist(w, hist, want_state=True)
        except (yv.WorkerDied, yv.WorkerHang) as e:
            ops = w._c10[0]
            v, key = ("C10:crash", dict(history=[ops[j][0] for j in hist], error=str(e), stderr=getattr(e, "err", "")[-3000:])), None
            yv.drop_worker(VAR); w = setup_worker()
        out.append((v, key))
    return out


def main():
    ck = yv.Check("C10", "model_checking")
    try:
        w = setup_worker()
    except AssertionError as e:
        if e.args and e.args[0] and e.args[0][0] == "baseline not stable":
            # after the warm-up pass a create / scan / scan / destroy cycle still changes the number of live allocations: something survives the scanner
            ck.violation("C10:leak:scanner-cycle-after-warm-up", dict(live_before=e.args[0][1], after=e.args[0][2], cycle="scanner create, scan PE, scan TXT1, destroy"))
            ck.cov["states"] = ck.cov["transitions"] = 1; ck.cov["exhaustive"] = False
            ck.finish(); return
        raise
    ops, fresh, base, info = w._c10
    nops = len(ops)
    L = 2 if ck.tier == "quick" else 3
    D = 3 if ck.tier == "quick" else 5
    ck.cov["alphabet"] = [o[0] for o in ops]
    ck.cov["alphabet_size"] = nops
    # ---- unmerged: every sequence of length L followed by nothing (each position is compared) ----
    seqs = (list(s) for n in range(1, L + 1) for s in itertools.product(range(nops), repeat=n)) if L < 3 else \
           (list(s) for s in itertools.product(range(nops), repeat=L))
    nseq = trans = 0
    distinct = set()
    for res in yv.pmap(chunk_unmerged, yv.chunked(seqs, 200), ck, prebuild=(VAR,)):
        for v in res:
            nseq += 1
            if v:
                ck.violation(v[0], v[1])
    trans += nseq * L
    ck.sub("unmerged", length=L, sequences=nseq, complete=not ck.expired())
    # ---- merged BFS on persistent scanner fields ----
    seen = {}
    frontier = [[]]
    states = 1
    for d in range(D):
        work = [h + [i] for h in frontier for i in range(nops)]
        flat = []
        for res in yv.pmap_ordered(chunk_merged, yv.chunked(work, 200), ck, prebuild=(VAR,)):
            flat.extend(res)
        nxt = []
        for h, (v, key) in zip(work, flat):
            trans += 1
            if v:
                ck.violation(v[0], v[1]); continue
            if key not in seen:
                seen[key] = h; nxt.append(h)
        if len(flat) < len(work):
            break
        frontier = nxt
        ck.sub("merged-bfs", depth_completed=d + 1, states=len(seen), frontier=len(nxt))
        if not nxt:
            ck.sub("merged-bfs", fixpoint=True)
            break
    ck.cov["evaluations"] = nseq + trans
    ck.cov["states"] = max(1, len(seen))
    ck.cov["transitions"] = trans
    ck.cov["traces_validated_against_impl"] = nseq + trans
    ck.cov["distinct_nontrivial"] = len(seen)
    for h in list(seen.values())[-3:]:
        ck.sample([ops[i][0] for i in h])
    ck.cov["rule"] = ("alphabet = scans of {PE, ELF, text with/without matches, empty, 12 x 'q' (match limit 8; also for a hex string with a wildcard and a regexp), chained hex, a regex that exhausts the fiber pool (16) and one that does not} x outcomes "
                      "{normal, abort/error at every message index, timeout at every poll index (virtual clock), too-many-matches "
                      "abort/error, not-ready resumed/abandoned (text, ELF and PE through a two-block iterator)} + scanner-level defines; all sequences of length L unmerged, BFS to "
                      "depth D merged on the persistent fields of YR_SCAN_CONTEXT; oracle = same op on a fresh scanner with the same "
                      "settings, and zero live allocations after destroy")
    ck.assumptions += ["built with scaled limits (YR_MAX_STRING_MATCHES=8, chaining threshold 3): same source, smaller constants",
                       "settings (flags, timeout) are passed explicitly with every scan, externals are replayed on the fresh scanner"]
    ck.finish()


if __name__ == "__main__":
    main()
