#!/usr/bin/env python3
"""C11 - the scan callback protocol is exact.  Shape B: the callback's answers are the environment.
Enumerates rule sequences x report flags x buffers x callback scripts (0, 1, 2 deviations from
'continue'), compares every message sequence and return code with the protocol automaton ref_cb."""
import itertools, os, sys
sys.path.insert(0, os.path.join(os.path.dirname(os.path.abspath(__file__)), "..", "lib"))
import yv

CB_ERR = 28
MATCHING, NOT_MATCHING = 8, 16
BUFS = [b"xabcx", b"xyz"]
CONDS = {"T": "true", "F": "false", "U": "uint8(filesize + 5) == 0", "A": "$a"}
FLAGSETS = [0, MATCHING, NOT_MATCHING, MATCHING | NOT_MATCHING]
IMPORTS = [(), ("tests",), ("tests", "math")]


def cond_value(c, buf):
    return {"T": True, "F": False, "U": False, "A": b"abc" in buf}[c]


def rule_text(i, mods, c):
    m = ("global " if "g" in mods else "") + ("private " if "p" in mods else "")
    s = 'strings: $a = "abc" ' if c == "A" else ""
    return "%srule r%d { %scondition: %s }" % (m, i, s, CONDS[c])


def ref_cb(rules, imports, flags, buf, script):
    """rules: [(mods, cond, ns)] -> (expected messages as comparable tuples, rc)"""
    if not flags & (MATCHING | NOT_MATCHING):
        flags |= MATCHING | NOT_MATCHING
    msgs = []
    for m in imports:
        msgs.append(("imp", m)); msgs.append(("imd", m))
    nmod = len(msgs)
    ns_ok = {}
    for (mods, c, ns) in rules:
        if "g" in mods and not cond_value(c, buf):
            ns_ok[ns] = False
    for i, (mods, c, ns) in enumerate(rules):
        if "p" in mods:
            continue
        ok = cond_value(c, buf) and ns_ok.get(ns, True)
        if ok and flags & MATCHING:
            msgs.append(("m", "%s:r%d" % (ns, i)))
        elif not ok and flags & NOT_MATCHING:
            msgs.append(("n", "%s:r%d" % (ns, i)))
    msgs.append(("fin",))
    rc = 0
    # apply the script: first position (in message order) with a non-continue action wins; actions at later
    # positions are never consulted
    for k in sorted(script):
        if k >= len(msgs):
            continue
        act = script[k]
        kind = msgs[k][0]
        if kind in ("imp", "imd"):
            if act == "E":
                return msgs[:k + 1], CB_ERR
            continue  # abort on module message: not part of the property (never generated)
        if kind == "fin":
            continue
        return msgs[:k + 1], (0 if act == "A" else CB_ERR)
    return msgs, rc


def gen_rulesets(tier):
    kinds = [(m, c) for m in ("", "g", "p", "gp") for c in "TFUA"]
    out = []
    maxlen = 3 if tier == "quick" else 4
    for n in range(1, maxlen + 1):
        if n <= 2:
            ks = kinds
        elif n == 3:
            ks = kinds
        else:
            ks = [(m, c) for m in ("", "g", "gp") for c in "TF"] + [("", "A"), ("g", "A")]
        for combo in itertools.product(ks, repeat=n):
            # namespaces: first rule always n1 (symmetry), the others either
            for nss in itertools.product(("n1", "n2"), repeat=n - 1):
                out.append([(combo[i][0], combo[i][1], (("n1",) + nss)[i]) for i in range(n)])
    return out


def run_chunk(arg):
    tier, chunk = arg
    w = yv.get_worker("plain")
    res = dict(evals=0, nontrivial=set(), viol=[], sample=None, transitions=0)
    for (rules, imports, variant) in chunk:
        # one add per rule, preserving definition order; variant "dup" repeats the import statements in every source
        cmds = ["reset", "compiler 0"]
        head = "".join('import "%s"\n' % m for m in imports)
        first = True
        for i, (mods, c, ns) in enumerate(rules):
            cmds.append("add 0 %s %s" % (ns, yv.hx((head if (first or variant == "dup") else "") + rule_text(i, mods, c))))
            first = False
        target = "r0" if variant == "rules-api" else "s0"
        cmds += ["getrules 0 0", "cdestroy 0", "scanner 0 0"]
        rep = w.batch(cmds)
        if any(r.get("errors", 0) for r in rep) or rep[-1].get("rc") != 0:
            res["viol"].append(("C11:compile-failed", dict(rules=rules, imports=imports, replies=rep)))
            continue
        for flags in FLAGSETS:
            for buf in BUFS:
                base, _ = ref_cb(rules, imports, flags, buf, {})
                scripts = [{}]
                for k in (range(len(base)) if len(rules) <= 4 else sorted({0, 1, len(base) // 2, len(base) - 2, len(base) - 1} & set(range(len(base))))):
                    kinds = ("E",) if base[k][0] in ("imp", "imd") else ("A", "E")
                    for a in kinds:
                        scripts.append({k: a})
                if len(rules) > 4:
                    scripts.append({})          # once more after the aborted / failed scans: their leftovers must not show
                elif tier != "quick" or len(rules) <= 2:
                    for k1 in range(len(base)):
                        for k2 in range(k1 + 1, len(base)):
                            for a1 in (("E",) if base[k1][0] in ("imp", "imd") else ("A", "E")):
                                for a2 in (("E",) if base[k2][0] in ("imp", "imd") else ("A", "E")):
                                    scripts.append({k1: a1, k2: a2})
                lines = ["scan target=%s via=mem ml=0 flags=%d data=%s%s" % (
                    target, flags, yv.hx(buf), (" cb=" + ",".join("%d:%s" % kv for kv in sorted(s.items()))) if s else "") for s in scripts]
                outs = w.batch(lines)
                for s, o in zip(scripts, outs):
                    exp, erc = ref_cb(rules, imports, flags, buf, s)
                    got = [tuple(m[:2]) for m in o["t"]]
                    res["evals"] += 1
                    res["transitions"] += len(got)
                    res["nontrivial"].add((tuple(exp), erc))
                    if got != exp or o["rc"] != erc:
                        what = "rc" if got == exp else ("after-stop" if len(got) > len(exp) and got[:len(exp)] == exp else "sequence")
                        sig = "C11:%s:script=%s" % (what, "".join(sorted(set(s.values()))) or "continue")
                        res["viol"].append((sig, dict(rules=[rule_text(i, m, c) + " // ns=" + ns for i, (m, c, ns) in enumerate(rules)],
                                                      imports=imports, flags=flags, buffer=buf.decode(), script=s,
                                                      expected=[exp, erc], observed=[got, o["rc"]])))
                    elif res["sample"] is None and s and len(rules) > 1:
                        res["sample"] = dict(rules=[rule_text(i, m, c) + " // ns=" + ns for i, (m, c, ns) in enumerate(rules)],
                                             imports=imports, flags=flags, buffer=buf.decode(), script=s, messages=got, rc=o["rc"])
        if target == "s0":
            # flag HISTORY on the reused scanner: every ordered pair of flag settings (an Euler circuit over 6 values incl. 0 and fast-mode-only, which both mean
            # "report everything"); each scan must deliver what a fresh scanner with the same flags delivers
            vals = [0, MATCHING, NOT_MATCHING, MATCHING | NOT_MATCHING, 1, 1 | MATCHING]
            seq, used = [0], set()
            def euler(v):
                for u in vals:
                    if (v, u) not in used:
                        used.add((v, u)); euler(u); seq.append(v)
            seq = []; euler(0); seq.reverse(); seq.append(0)      # closes the circuit: 36 ordered pairs
            buf = BUFS[len(rules) % len(BUFS)]
            outs = w.batch(["scan target=s0 via=mem ml=0 flags=%d data=%s" % (f, yv.hx(buf)) for f in seq])
            prev = None
            for f, o in zip(seq, outs):
                exp, erc = ref_cb(rules, imports, f, buf, {})
                got = [tuple(m[:2]) for m in o["t"]]
                res["evals"] += 1
                if got != exp or o["rc"] != erc:
                    res["viol"].append(("C11:flag-history:flags=%d-after-%s" % (f, prev), dict(rules=[rule_text(i, m, c) + " // ns=" + ns for i, (m, c, ns) in enumerate(rules)],
                                                                                          imports=imports, flags=f, previous_flags=prev, buffer=buf.decode(), expected=[exp, erc], observed=[got, o["rc"]])))
                    break
                prev = f
    res["nontrivial"] = list(res["nontrivial"])
    return res


def main():
    ck = yv.Check("C11", "model_checking")
    rs = gen_rulesets(ck.tier)
    items = []
    for r in rs:
        imps = IMPORTS if len(r) <= 2 else [IMPORTS[1]] if len(r) == 3 else [IMPORTS[0]]
        for im in imps:
            items.append((r, im, "scanner"))
            if len(r) <= 2:
                items.append((r, im, "rules-api"))
                if im:
                    items.append((r, im, "dup"))
    # large rule sets: the per-rule and per-namespace bitmaps cross byte and 64-bit word boundaries; one scanner serves the whole series of scans, whose
    # buffers alternate between one that makes the `$a` rules match and one that does not
    cyc = [("", "A"), ("", "T"), ("", "F"), ("p", "A"), ("", "A"), ("", "U"), ("p", "T"), ("", "A")]
    for N in ((9, 17, 65) if ck.tier == "quick" else (9, 17, 33, 63, 64, 65, 66, 129, 200)):
        for nsmode in ("one", "alternate", "global-last"):
            r = [(cyc[i % len(cyc)][0], cyc[i % len(cyc)][1], "n1" if nsmode != "alternate" or i % 2 == 0 else "n2") for i in range(N)]
            if nsmode == "global-last": r[-1] = ("g", "A", "n1")
            items.append((r, IMPORTS[1], "scanner"))
    if ck.seed:
        import random
        random.Random(ck.seed).shuffle(items)   # order only; the space is walked completely
    nontrivial = set()
    trans = 0
    for res in yv.pmap(run_chunk, [(ck.tier, c) for c in yv.chunked(items, 40)], ck):
        ck.cov["evaluations"] += res["evals"]
        trans += res["transitions"]
        nontrivial.update(map(lambda x: (tuple(map(tuple, x[0])), x[1]), res["nontrivial"]))
        for sig, d in res["viol"]:
            ck.violation(sig, d)
        if res["sample"]:
            ck.sample(res["sample"])
    ck.cov["distinct_nontrivial"] = len(nontrivial)
    ck.cov["states"] = len(nontrivial)
    ck.cov["transitions"] = trans
    ck.cov["traces_validated_against_impl"] = ck.cov["evaluations"]
    ck.cov["rule_sets"] = len(items)
    ck.cov["rule"] = ("every rule sequence of length<=3 (quick) / <=4 (thorough) over {-,global,private,global private} x "
                      "{true,false,undefined,$a} x 2 namespaces, x imports x 4 report-flag settings x 2 buffers x every callback "
                      "script with <=1 (and <=2 for short sets/thorough) non-continue answers; states = distinct (expected message "
                      "sequence, rc) pairs of the protocol automaton reached; transitions = callback messages delivered by the real "
                      "scanner; every execution is a model trace replayed on the implementation; plus rule sets of 9..65 (200) rules in three namespace layouts, scanned in series on one scanner")
    ck.assumptions += ["abort returned for a module message is not specified by the property and is not generated",
                       "undefined condition is produced by an integer read past the end of the buffer"]
    ck.finish()


if __name__ == "__main__":
    main()
