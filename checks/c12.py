#!/usr/bin/env python3
"""C12 - shortcuts and compile-time evaluation never change a verdict.  Twin families, each enumerated completely:
 1 fast mode            every C04 program that uses strings, SCAN_FLAGS_FAST_MODE vs 0
 2 atom position        every 4-byte window of every pool string made the best atom through a quality table
 3 forced evaluation    C  vs  (C) or filesize < 0
 4 const<->expr<->ext   an integer operand written as literal / constant expression (every operator) / external variable
                        (compile-time value, redefined at rules level, redefined at scanner level)
Oracle: agreement between the twins AND with the independent evaluator (so a folder that disagrees with the VM is caught even
if every twin is wrong in the same way)."""
import itertools, os, sys
sys.path.insert(0, os.path.join(os.path.dirname(os.path.abspath(__file__)), "..", "lib"))
sys.path.insert(0, os.path.dirname(os.path.abspath(__file__)))
import yv, c04
from refcond import *

BUFS = c04.BUFS
STRINGS = c04.STRINGS
FAST = 1


def batch_verdicts(w, rules, extdefs=(), flags=0, redef=None):
    """rules: [(name, strdecl, cond)] -> (error or None, [ {name: bool} per buffer ])"""
    text = 'import "tests"\n' + "\n".join("rule %s { %s condition: %s }" % r for r in rules)
    cmds = ["reset", "compiler 0"] + ["defc 0 %s s %s" % (n, yv.hx(v)) for (n, t, v) in c04.SV_EXT] + ["defc 0 %s i %d" % (n, v) for (n, v) in extdefs]
    cmds += ["add 0 - " + yv.hx(text), "getrules 0 0", "cdestroy 0"]
    if redef and redef[0] == "rules":
        cmds += ["defr 0 %s i %d" % (n, v) for (n, v) in redef[1]]
    cmds += ["scanner 0 0"]
    if redef and redef[0] == "scanner":
        cmds += ["defs 0 %s i %d" % (n, v) for (n, v) in redef[1]]
    k = len(cmds)
    rep = w.batch(cmds + ["scan target=s0 via=mem ml=0 flags=%d data=%s" % (flags, yv.hx(b)) for b in BUFS])
    add = [r for r in rep if "errors" in r][0]
    if add["errors"]:
        return add["msgs"][:2], None
    out = []
    for r in rep[k:]:
        out.append({m[1].split(":")[1]: m[0] == "m" for m in r["t"] if m[0] in ("m", "n")} if r["rc"] == 0 else {"__rc": r["rc"]})
    return None, out


# ------------------------------------------------------------------ families 1 and 3 (reuse the C04 programs)
def fam13_chunk(chunk):
    w = yv.get_worker("plain")
    res = []
    def handle(items):
        nonlocal w
        # the forced-evaluation twins are compiled behind 64 other rules: their evaluation must not depend on prefilled per-rule state either
        rules, rules3 = [], [("pad%d" % k, "", "filesize >= 0" if k % 2 else "filesize < 0") for k in range(64)]
        for (idx, tag, src, exp, ids) in items:
            rules.append(("r%d" % idx, c04.strdecl(ids), src))
            rules3.append(("r%d" % idx, c04.strdecl(ids), "(%s) or filesize < 0" % src))
        try:
            e0, v0 = batch_verdicts(w, rules, flags=0)
            e1, v1 = batch_verdicts(w, rules, flags=FAST) if e0 is None else (None, None)
            e3, v3 = batch_verdicts(w, rules3, flags=0) if e0 is None else (None, None)
        except (yv.WorkerDied, yv.WorkerHang) as e:
            yv.drop_worker("plain"); w = yv.get_worker("plain")
            if len(items) == 1: res.append((items[0], "crash", str(e))); return
            h = len(items) // 2; handle(items[:h]); handle(items[h:]); return
        if e0 is not None or e3 is not None:
            if len(items) == 1: res.append((items[0], "cerr", (e0, e3))); return
            h = len(items) // 2; handle(items[:h]); handle(items[h:]); return
        for it in items:
            n = "r%d" % it[0]
            res.append((it, "ok", ([v.get(n, v.get("__rc")) for v in v0], [v.get(n, v.get("__rc")) for v in v1], [v.get(n, v.get("__rc")) for v in v3])))
    handle(chunk)
    return res


# ------------------------------------------------------------------ family 2: atom position
POOL = [('"abcdefg"', b"abcdefg"), ('"abcdefg" nocase', b"abcdefg"), ('"abcdefg" wide', b"abcdefg"), ('"abcdefg" ascii wide', b"abcdefg"), ('"abcdefg" xor', b"abcdefg"),
        ('"abcde" fullword', b"abcde"), ("{ 61 62 63 64 ?? 66 67 68 69 }", b"abcdefghi"), ("{ 61 62 63 64 65 [1-2] 66 67 68 69 6a }", b"abcdefghij"),
        ("/abcd[ef]ghij/", b"abcdefghij"), ("/abcdef(gh|ij)klmn/", b"abcdefghijklmn"), ("/(abcd|efgh)ijkl/", b"abcdefghijkl"), ('"aaaabaaaa"', b"aaaabaaaa"),
        ('"abcdabcd"', b"abcdabcd"), ("{ 61 62 63 64 65 66 67 68 [4-] 69 6a 6b 6c 6d }", b"abcdefghijklm")]
ABUFS = [b"abcdefghijklmn", b"xxabcdefg", b"ABCDEFG abcdefg", b"a\0b\0c\0d\0e\0f\0g\0", b"abcde-abcdef abcde", b"abcdXfghi abcdeYfghij abcdeYZfghij", b"abcdeghij abcdfghij",
         b"abcdefghklmn abcdefijklmn", b"abcdijkl efghijkl", b"aaaabaaaabaaaa", b"abcdabcdabcd", b"abcdefgh....ijklm", bytes(c ^ 0x5a for c in b"..abcdefg.."), b"", b"abcdef"]


def fam2_chunk(chunk):
    w = yv.get_worker("plain")
    out = []
    for (decl, base, win) in chunk:
        rule = "rule r { strings: $a = %s condition: #a >= 0 }" % decl
        windows = sorted(set(base[i:i + 4] for i in range(len(base) - 3)))
        if win == "default":
            extra = []
        elif win == "allzero":
            extra = ["atomq 0 %s 0" % b"".join(x + b"\0" for x in windows).hex()]
        else:
            extra = ["atomq 0 %s 0" % b"".join(x + b"\0" for x in windows if x != win).hex()]
        cmds = ["reset", "compiler 0"] + extra + ["add 0 - " + yv.hx(rule), "getrules 0 0", "cdestroy 0", "scanner 0 0"]
        rep = w.batch(cmds + ["scan target=s0 via=mem data=" + yv.hx(b) for b in ABUFS])
        add = [r for r in rep if "errors" in r][0]
        if add["errors"]:
            out.append((decl, win, "cerr", add["msgs"][:2])); continue
        obs = [[r["rc"], [m[2] for m in r["t"] if m[0] in ("m", "n")]] for r in rep[len(cmds):]]
        out.append((decl, win, "ok", obs))
    return out


# wildcards and nibble masks inside a literal run: a quality table that rates the plain windows as common moves the indexed atom onto the masked byte; the
# string must still be found for EVERY byte value the mask admits (the masked atom is expanded into plain atoms for the automaton)
WPOOL = ["61 62 63 64 65 ?? 67 68", "61 62 63 64 65 ?7 67 68", "61 62 63 64 65 6? 67 68", "61 62 63 64 ?? ?3 67 68 69", "?? 62 63 64 65 66", "61 62 63 64 65 F?", "61 62 ?F 64 65 66 67",
         "61 62 63 64 65 ?? ?? 68 69 6A 6B"]


def wparse(decl):
    out = []
    for t in decl.split():
        hi, lo = t[0], t[1]
        out.append(((0 if hi == "?" else int(hi, 16) << 4) | (0 if lo == "?" else int(lo, 16)), (0 if hi == "?" else 0xf0) | (0 if lo == "?" else 0x0f)))
    return out


def famw_chunk(chunk):
    w = yv.get_worker("plain")
    out = []
    for (decl, table) in chunk:
        toks = wparse(decl)
        lit = bytes(v for v, m in toks)
        wins = sorted(set(lit[i:i + 4] for i in range(len(lit) - 3) if all(m == 0xff for _, m in toks[i:i + 4])))
        buf, want = b"", []
        for v in range(256):
            var = bytes(val if m == 0xff else v for val, m in toks)
            if all((b & m) == val for b, (val, m) in zip(var, toks)): want.append([len(buf), len(var)])
            buf += var + b"...."
        extra = [] if table == "default" else ["atomq 0 %s 0" % b"".join(x + b"\0" for x in wins if x != table).hex()]
        for flags in (0, 1):
            cmds = ["reset", "compiler 0"] + extra + ["add 0 - " + yv.hx("rule r { strings: $a = { %s } condition: #a >= 0 }" % decl), "getrules 0 0", "cdestroy 0", "scanner 0 0"]
            rep = w.batch(cmds + ["scan target=s0 via=mem flags=%d data=%s" % (flags, yv.hx(buf))])
            add = [r for r in rep if "errors" in r][0]
            if add["errors"]:
                out.append((decl, table, flags, "cerr", add["msgs"][:2], None)); continue
            got = [[x[0], x[1]] for m in rep[-1]["t"] if m[0] in ("m", "n") for sid in m[2] for x in sid[1]]
            out.append((decl, table, flags, "ok", got, want))
    return out


# ------------------------------------------------------------------ family 4: constant <-> expression <-> external
def templates():
    K = lambda e: e
    return [("at", [0, 2, 4, 8, 9], lambda k: At("a", k), ["a"]),
            ("at-after-at", [2, 4, 8], lambda k: Bin("or", At("a", Int(0)), At("a", k)), ["a"]),
            ("at-before-at", [2, 4, 8], lambda k: Bin("or", At("a", k), At("a", Int(0))), ["a"]),
            ("in-lo", [0, 1, 4, 5, 9], lambda k: In("a", k, Int(9)), ["a"]),
            ("in-hi", [0, 3, 4, 7, 8], lambda k: In("a", Int(0), k), ["a"]),
            ("count-in", [0, 4, 5, 8], lambda k: Bin("==", CountIn("a", k, Int(12)), Int(2)), ["a"]),
            ("of", [0, 1, 2, 3], lambda k: Of(k, ["a", "b", "c"], "them"), ["*"]),
            ("of-in", [0, 1, 2], lambda k: Of(k, ["a", "b", "c"], "them", rng=(Int(0), Int(5))), ["*"]),
            ("offset-index", [1, 2, 3, 4], lambda k: Bin("==", Offset("a", k), Int(4)), ["a"]),
            ("read", [0, 1, 3, 9, 10], lambda k: Bin("==", Read("uint8", k), Int(0x62)), []),
            ("for-quant", [0, 1, 2, 3], lambda k: ForIn(k, ["i"], ("range", Int(0), Int(3)), At("b", Bin("*", Var("i"), Int(2)))), ["b"]),
            ("for-lo", [0, 1, 4], lambda k: ForIn("any", ["i"], ("range", k, Int(6)), At("a", Var("i"))), ["a"]),
            ("for-hi", [0, 3, 4, 8], lambda k: ForIn("any", ["i"], ("range", Int(0), k), At("a", Var("i"))), ["a"]),
            ("percent", [1, 34, 50, 67, 100], lambda k: Of(("%", k), ["a", "b", "c"], "them"), ["*"]),
            ("length-index", [1, 2], lambda k: Bin("==", Length("b", k), Int(2)), ["b"]),
            ("shift", [0, 1, 63, 64], lambda k: Bin("==", Bin("<<", Count("b"), k), Int(4)), ["b"]),
            ("cmp", [0, 2, 3], lambda k: Bin("==", Count("b"), k), ["b"])]


def const_exprs(k):
    """constant expressions (one per operator and operand shape) whose run-time value is k"""
    V = [0, 1, 2, 3, 4, 5, 7, 8, 9, 10, 16, 32, 63, 64, 100, 200, 255, -1, -2, (1 << 63) - 1, -(1 << 63), 1 << 62]
    out = {}
    ops = ["+", "-", "*", "\\", "%", "&", "|", "^", "<<", ">>"]
    for op in ops:
        found = 0
        for x in V:
            for y in V:
                e = Bin(op, Int(x), Int(y))
                try: v = e.ev(Ctx())
                except Exception: continue
                exact = {"+": x + y, "-": x - y, "*": x * y, "<<": (x << y) if 0 <= y < 64 else 0}.get(op, 0)
                if not -(1 << 63) <= exact < (1 << 63): continue      # constant arithmetic that overflows is rejected at compile time by design
                if v is not UNDEF and v == k:
                    shape = "neg" if (x < 0 or y < 0) else "big" if (abs(x) > 255 or abs(y) > 255) else "small"
                    # operand diversity: a folding rule that uses a neighbouring operator (| for ^, + for |, - for ^ ...) agrees with the right one on many
                    # operand pairs, so keep one pair per relation between the operands
                    rel = "same" if x == y else "zero-operand" if (x == 0 or y == 0) else "shared-bits" if (x & y) else "disjoint-bits"
                    key = (op, shape + ":" + rel)
                    if key not in out:
                        out[key] = e; found += 1
    for x in V:
        for u in ("-", "~"):
            e = Un(u, Int(x))
            if e.ev(Ctx()) == k: out[(u, "unary")] = e
    # nested: (k + 3) - 3, (k << 1) >> 1, (k * 2) \ 2
    out[("+-", "nested")] = Bin("-", Bin("+", Int(k), Int(3)), Int(3))
    out[("<<>>", "nested")] = Bin(">>", Bin("<<", Int(k), Int(1)), Int(1))
    out[("*\\", "nested")] = Bin("\\", Bin("*", Int(k), Int(2)), Int(2))
    out[(">>", "nested2")] = Bin(">>", Int(k * 4), Int(2))
    return out


def fam4_chunk(chunk):
    w = yv.get_worker("plain")
    res = []
    for (tname, k, variants, ids) in chunk:
        # variants: [(label, cond_src, extdefs, redef)]
        base = None
        for (label, src, extdefs, redef, exp) in variants:
            try:
                err, v = batch_verdicts(w, [("r", c04.strdecl(ids), src)], extdefs=extdefs, redef=redef)
            except (yv.WorkerDied, yv.WorkerHang) as e:
                yv.drop_worker("plain"); w = yv.get_worker("plain")
                res.append((tname, k, label, src, "crash", str(e) + getattr(e, "err", "")[-800:], exp)); continue
            if err is not None:
                res.append((tname, k, label, src, "cerr", err, exp)); continue
            res.append((tname, k, label, src, "ok", [x.get("r", x.get("__rc")) for x in v], exp))
    return res


def main():
    ck = yv.Check("C12", "exploration")
    quick = ck.tier == "quick"
    c04.THOROUGH = not quick
    # ---------------- families 1 + 3
    work, seen = [], set()
    idx = 0
    for name, g in c04.SUBSPACES:
        if name in ("optables", "precedence") and quick: continue
        r = g(); items = r[0] if isinstance(r, tuple) else r
        for (tag, e) in items:
            src = e.s()
            if src in seen: continue
            seen.add(src); idx += 1
            exp = [verdict(e, Ctx(b, STRINGS, {})) for b in BUFS]
            if has_undef_quant(e): tag = "undefined-quantifier"
            work.append((idx, tag, src, exp, sorted(sids_of(e))))
    n13 = 0
    for res in yv.pmap(fam13_chunk, yv.chunked(work, 24), ck):
        for (it, status, got) in res:
            idx_, tag, src, exp, ids = it
            n13 += 1
            if status == "crash": ck.violation("C12:crash:" + tag, dict(condition=src, error=got)); continue
            if status == "cerr":
                ck.violation("C12:forced-evaluation-form-rejected:" + tag, dict(condition=src, messages=got)); continue
            v0, v1, v3 = got
            ck.cov["evaluations"] += 3 * len(BUFS)
            for b, a, f, o, e_ in zip(BUFS, v0, v1, v3, exp):
                if a != f:
                    ck.violation("C12:fast-mode:" + tag, dict(condition=src, buffer_hex=b.hex(), normal=a, fast=f, reference=e_)); break
                if a != o:
                    ck.violation("C12:forced-evaluation:" + tag, dict(condition=src, forced="(%s) or filesize < 0" % src, buffer_hex=b.hex(), plain=a, forced_verdict=o, reference=e_)); break
    ck.sub("fast-mode+forced-evaluation", programs=n13)
    # ---------------- family 2
    jobs = []
    for (decl, base) in POOL:
        wins = sorted(set(base[i:i + 4] for i in range(len(base) - 3)))
        jobs += [(decl, base, "default"), (decl, base, "allzero")] + [(decl, base, x) for x in wins]
    ref = {}
    results = []
    for res in yv.pmap(fam2_chunk, yv.chunked(jobs, 8), ck):
        results += res
    for (decl, win, st, obs) in results:
        if win == "default": ref[decl] = (st, obs)
    n2 = 0
    for (decl, win, st, obs) in results:
        if win == "default": continue
        n2 += 1
        ck.cov["evaluations"] += len(ABUFS)
        if (st, obs) != ref[decl]:
            kind = "text" if decl.startswith('"') else "hex" if decl.startswith("{") else "regex"
            ck.violation("C12:atom-table:%s" % kind, dict(string=decl, best_window=win if isinstance(win, str) else win.decode(), default=ref[decl], with_table=(st, obs), buffers=[b.hex() for b in ABUFS]))
    ck.sub("atom-position", strings=len(POOL), tables=n2)
    wjobs = []
    for decl in WPOOL:
        toks = wparse(decl); lit = bytes(v for v, m in toks)
        wins = sorted(set(lit[i:i + 4] for i in range(len(lit) - 3) if all(m == 0xff for _, m in toks[i:i + 4])))
        wjobs += [(decl, "default"), (decl, "allzero")] + [(decl, x) for x in wins]
    nw = 0
    for res in yv.pmap(famw_chunk, yv.chunked(wjobs, 2), ck):
        for (decl, table, flags, st, got, want) in res:
            nw += 1; ck.cov["evaluations"] += 256
            if st != "ok":
                ck.violation("C12:atom-table:masked-hex:rejected", dict(string=decl, table=str(table), messages=got)); continue
            if flags == 1:
                got = sorted(set(tuple(x) for x in got)); want_ = sorted(set(tuple(x) for x in want))
                ok = set(got) <= set(want_) and (bool(got) == bool(want_))        # fast mode may stop at the first occurrence
            else:
                ok = sorted(got) == sorted(want)
            if not ok:
                missing = [x for x in want if x not in got][:4]
                ck.violation("C12:atom-table:masked-hex:%s" % ("default-table" if table == "default" else "table-moves-the-atom"),
                             dict(string="{ %s }" % decl, plain_windows_rated_common=str(table), fast_mode=bool(flags), missing_byte_values=["%02x" % (o[0] // (o[1] + 4)) for o in missing], extra=[x for x in got if x not in want][:4]))
    ck.sub("atom-position:masked-hex", strings=len(WPOOL), compilations=nw, note="every byte value 0..255 in the masked positions; expected occurrences from the mask itself")
    # ---------------- family 4
    chunks = []
    for (tname, ks, mk, ids) in templates():
        for k in ks:
            lit = mk(Int(k))
            exp = [verdict(lit, Ctx(b, STRINGS, {})) for b in BUFS]
            variants = [("literal", lit.s(), [], None, exp)]
            for key, ce in sorted(const_exprs(k).items(), key=str):
                variants.append(("expr:%s:%s" % key, mk(ce).s(), [], None, exp))
            ext = Raw("ext", None)
            src = mk(ext).s()
            variants.append(("external:compile-time", src, [("ext", k)], None, exp))
            for other in sorted(set([0, 1, 4, 200]) - {k})[:2]:
                variants.append(("external:redefined-at-rules-level:was=%d" % other, src, [("ext", other)], ("rules", [("ext", k)]), exp))
                variants.append(("external:redefined-at-scanner-level:was=%d" % other, src, [("ext", other)], ("scanner", [("ext", k)]), exp))
            chunks.append((tname, k, variants, ids))
    # constant expressions whose run-time value is undefined: must be rejected with a diagnostic or behave as undefined, never crash
    MIN = Int(-(1 << 63))
    for (label, ce) in (("min-div-minus1", Bin("\\", MIN, Int(-1))), ("min-mod-minus1", Bin("%", MIN, Int(-1))), ("div-zero", Bin("\\", Int(5), Int(0))),
                        ("mod-zero", Bin("%", Int(5), Int(0))), ("shl-negative", Bin("<<", Int(1), Int(-1))), ("shr-negative", Bin(">>", Int(1), Int(-1))),
                        ("nested-min-div", Bin("+", Bin("\\", MIN, Int(-1)), Int(1)))):
        for (wl, wrapf) in (("defined", lambda e: Un("defined", e)), ("eq", lambda e: Bin("==", e, Int(0))), ("at", lambda e: At("a", e)), ("not-defined", lambda e: Un("not", Un("defined", e)))):
            cond = wrapf(ce)
            exp = [verdict(cond, Ctx(b, STRINGS, {})) for b in BUFS]
            chunks.append(("undefined-const:" + label, 0, [("constant:" + wl, cond.s(), [], None, exp)], ["a"] if wl == "at" else []))
    n4 = 0
    for res in yv.pmap(fam4_chunk, [[c] for c in chunks], ck):
        by = {}
        for (tname, k, label, src, st, got, exp) in res:
            n4 += 1
            ck.cov["evaluations"] += len(BUFS)
            cls = label.split(":")[0] + (":" + label.split(":")[1] if label.startswith(("expr", "external")) else "")
            if st == "crash":
                ck.violation("C12:compiler-crash:%s" % cls, dict(template=tname, K=k, form=label, condition=src, error=got)); continue
            if st == "cerr" and tname.startswith("undefined-const"):
                continue            # rejected with a diagnostic: fine
            if st == "cerr":
                ck.violation("C12:rejected-although-literal-form-accepted:%s:%s" % (tname, cls), dict(template=tname, K=k, form=label, condition=src, messages=got)); continue
            if got != exp:
                bi = [i for i, (a, b) in enumerate(zip(got, exp)) if a != b][0]
                ck.violation("C12:verdict:%s:%s" % (tname, cls), dict(template=tname, K=k, form=label, condition=src, buffer_hex=BUFS[bi].hex(), expected=exp[bi], observed=got[bi]))
            elif n4 % 97 == 0:
                ck.sample(dict(template=tname, K=k, form=label, condition=src, verdicts=got))
    ck.sub("const-expr-external", variants=n4)
    ck.cov["distinct_nontrivial"] = n13 + n2 + n4
    ck.cov["programs"] = n13 + n2 + n4
    ck.cov["rule"] = ("twin families: (1,3) every distinct C04 condition with strings etc. run normally, in fast mode and as `(C) or filesize < 0`; (2) every 4-byte "
                      "window of 14 pool strings ranked best through an atom quality table, match lists vs default; (4) 17 templates x border K x {literal, one "
                      "constant expression per operator, operand class and operand relation (same / zero operand / shared bits / disjoint bits) with run-time value K, external with compile-time value K, external redefined to K at "
                      "rules level and at scanner level}; each twin is one case, every case is compared with its twin and with the reference evaluator")
    ck.assumptions += ["fold-vs-VM agreement is judged by the reference evaluator's run-time value"]
    ck.finish()


if __name__ == "__main__":
    main()
