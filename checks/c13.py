#!/usr/bin/env python3
"""C13 - all scan entry points agree, also across interrupted block iteration.
The block iterator's answers are the environment: for every buffer over {a,b} up to a length bound, every composition into
<= 4 blocks and EVERY subset of iterator calls answering 'not ready' (1 or 2 times each) the scan call is repeated until it
completes; every intermediate call must return ERROR_BLOCK_NOT_READY without delivering a message and the final observation
must equal the uninterrupted scan of the same partition; a partition that cuts none of the occurrences found in the whole buffer must
give exactly the whole buffer's result (rules with at / in / #..in / @ / ! / of..in operands in absolute offsets)."""
import itertools, json, os, sys
sys.path.insert(0, os.path.join(os.path.dirname(os.path.abspath(__file__)), "..", "lib"))
import yv

NOT_READY = 61
RULES = """
import "tests"
rule ab { strings: $s = "ab" condition: $s }
rule cnt { strings: $s = "ab" condition: #s == 2 }
rule bb1 { strings: $s = "bb" condition: $s at 1 }
rule fs3 { condition: filesize == 3 }
rule u8 { condition: uint8(1) == 0x62 }
rule re { strings: $r = /a+b/ condition: $r }
rule hexj { strings: $h = { 61 [1-2] 62 } condition: $h }
rule two { strings: $x = "aa" $y = "ba" condition: $x and $y }
rule in12 { strings: $s = "ab" condition: $s in (1..2) }
rule cin { strings: $s = "ab" condition: #s in (1..3) == 1 }
rule off2 { strings: $s = "ab" condition: @s[2] == 3 or !s[1] != 2 }
rule ofin { strings: $x = "aa" $y = "bb" condition: any of them in (2..3) }
rule at3 { strings: $s = "ba" condition: $s at 3 }
""" + "".join('rule d_%s_%d { condition: console.log("%s(%s) ", %s(%s)) }\n' % (f.replace(".", "_"), k, f, a, f, a)
              for f in ("hash.md5", "hash.sha1", "hash.sha256", "hash.crc32", "hash.checksum32", "math.entropy", "math.mean", "math.serial_correlation")
              for k, a in enumerate(("1, 3", "0, filesize", "2, 2", "1, 4")))
RULES = 'import "hash" import "math" import "console"' + RULES
# the d_* rules log values computed from byte ranges that the modules fetch through the block iterator at evaluation time: a range that starts in one block and ends
# inside a later one must give the value of the same range of the whole buffer
EP_RULES = """
import "tests"
rule head { strings: $a = "HEAD" condition: $a at 0 }
rule tail { strings: $z = "TAIL" condition: $z at filesize - 4 }
rule both { strings: $a = "HEAD" $z = "TAIL" condition: #a == 1 and #z == 1 }
rule fs { condition: filesize %% 4096 == 0 }
rule last { condition: uint8(filesize - 1) == 0x4c }
rule first { condition: uint32(0) == 0x44414548 }
rule pe { condition: uint16(0) == 0x5a4d }
rule ep { condition: entrypoint >= 0 }
rule empty { condition: filesize == 0 }
rule wfw { strings: $w = "foo" wide fullword condition: $w }
rule afw { strings: $f = "TAIL" fullword condition: $f }
rule wnc { strings: $n = "foo" wide nocase condition: $n }
rule fibs { strings: $r = /x(a{1,60}){1,60}y/ condition: $r }
rule rx { strings: $r = /HE[A-Z]+D\.+/ condition: $r }
"""


def compositions(n, maxparts):
    if n == 0:
        yield ()
        return
    for k in range(1, min(n, maxparts) + 1):
        for cuts in itertools.combinations(range(1, n), k - 1):
            b = (0,) + cuts + (n,)
            yield tuple(b[i + 1] - b[i] for i in range(k))


def obs(r):
    return json.dumps([r["t"], r["rc"]])


def run_chunk(arg):
    tier, chunk = arg
    w = yv.get_worker("plain")
    if not getattr(w, "_c13", False):
        rep = w.batch(["reset", "compiler 0", "add 0 - " + yv.hx(RULES), "getrules 0 0", "cdestroy 0", "scanner 0 0"])
        assert rep[2]["errors"] == 0 and rep[3]["rc"] == 0
        w._c13 = True
    out = dict(evals=0, viol=[], distinct=set(), sample=None, calls=0)
    for buf in chunk:
        data = yv.hx(buf)
        whole = w.cmd("scan target=s0 via=mem data=" + data)
        for parts in compositions(len(buf), 4):
            bl = ",".join(map(str, parts)) if parts else "0"
            base = "scan target=s0 via=blocks data=%s blocks=%s" % (data, bl)
            ref = w.cmd(base)
            if len(parts) <= 1 and obs(ref) != obs(whole):
                out["viol"].append(("C13:single-block-iterator-differs-from-mem", dict(buffer=buf.decode(), blocks=parts, mem=whole, iterator=ref)))
            if len(parts) > 1:
                # a partition that cuts none of the occurrences found in the whole buffer must give the whole buffer's result
                # rule by rule: a rule none of whose own occurrences (in the whole buffer) is cut must be reported exactly as for the whole buffer
                cuts = set(itertools.accumulate(parts[:-1]))
                wm = [m for m in whole["t"] if m[0] in ("m", "n")]; rm = {m[1]: m for m in ref["t"] if m[0] in ("m", "n")}
                for m in wm:
                    occ = [(x[0], x[1]) for sid in m[2] for x in sid[1]]
                    if any(o < c < o + l for (o, l) in occ for c in cuts): continue
                    out["evals"] += 1
                    if rm.get(m[1]) != m:
                        out["viol"].append(("C13:multi-block-iterator-differs-from-mem:%s" % m[1].split(":")[-1], dict(buffer=buf.decode(), blocks=parts, rule=m[1], mem=m, iterator=rm.get(m[1]))))
                lw, lr = [m[1] for m in whole["t"] if m[0] == "log"], [m[1] for m in ref["t"] if m[0] == "log"]
                out["evals"] += 1
                if lw != lr:
                    d = [(a, b) for a, b in zip(lw, lr) if a != b][:1] or [("(different number of values)", "")]
                    out["viol"].append(("C13:multi-block-iterator-differs-from-mem:range-function:%s" % d[0][0].split("(")[0], dict(buffer=buf.decode(), blocks=parts, mem=d[0][0], iterator=d[0][1])))
                if ref["rc"] != whole["rc"] or [m[0] for m in ref["t"]] [-1:] != ["fin"]:
                    out["viol"].append(("C13:multi-block-iterator-differs-from-mem:rc-or-finish", dict(buffer=buf.decode(), blocks=parts, mem=whole, iterator=ref)))
            ncalls = (len(parts) if parts else 1) + 1
            cmds, scripts = [], []
            for r in (1, 2):
                for mask in range(1, 1 << ncalls):
                    nr = ";".join("0.%d.%d" % (p, r) for p in range(ncalls) if mask >> p & 1)
                    cmds.append(base + " nr=" + nr); scripts.append((mask, r))
            reps = w.batch(cmds)
            for (mask, r), rep, cmd in zip(scripts, reps, cmds):
                out["evals"] += 1
                out["calls"] += len(rep["calls"])
                nnr = bin(mask).count("1") * r
                bad = None
                calls = rep["calls"]
                if len(calls) != nnr + 1 or any(c != [NOT_READY, 0] for c in calls[:-1]) or rep["nrgiven"] != nnr:
                    bad = "intermediate-calls"
                elif obs(rep) != obs(ref):
                    bad = "final-result"
                if bad:
                    first = "first" if mask & 1 else "next"
                    out["viol"].append(("C13:interrupted:%s:notready-at-%s%s" % (bad, first, ":x%d" % r if r > 1 else ""),
                                        dict(buffer=buf.decode(), blocks=parts, notready_positions=[p for p in range(ncalls) if mask >> p & 1], times=r,
                                             command=cmd, uninterrupted=ref, interrupted=rep)))
                else:
                    out["distinct"].add((len(parts), mask, r))
                    if out["sample"] is None and len(parts) == 3 and mask == 5:
                        out["sample"] = dict(buffer=buf.decode(), blocks=parts, notready_positions=[0, 2], times=r, calls=calls, final=rep["t"])
    out["distinct"] = list(out["distinct"])
    return out


def reiteration(ck, w):
    """not-ready answers during the evaluation-time re-iteration (uint8 reader walks the blocks again)"""
    n = bad = 0
    w.batch(["reset", "compiler 0", "add 0 - " + yv.hx(RULES), "getrules 0 0", "cdestroy 0", "scanner 0 0"])
    for buf in (b"abab", b"bbab", b"aab"):
        for parts in compositions(len(buf), 3):
            base = "scan target=s0 via=blocks data=%s blocks=%s" % (yv.hx(buf), ",".join(map(str, parts)))
            ref = w.cmd(base)
            ncalls = len(parts) + 1
            for mask in range(1, 1 << ncalls):
                nr = ";".join("1.%d.1" % p for p in range(ncalls) if mask >> p & 1)
                rep = w.cmd(base + " nr=" + nr)
                n += 1
                if rep["nrgiven"] == 0:
                    continue     # the re-iteration never reached that call
                ok = obs(rep) == obs(ref) and all(c[0] == NOT_READY for c in rep["calls"][:-1])
                if not ok:
                    bad += 1
                    symptom = "silently-ignored-read-becomes-undefined" if (rep["rc"] == 0 and len(rep["calls"]) == 1 and
                                                                         [m[:2] for m in rep["t"] if m[1:2] != ["default:u8"]] == [m[:2] for m in ref["t"] if m[1:2] != ["default:u8"]]) else "other"
                    ck.violation("C13:reiteration:not-ready-during-rule-evaluation:" + symptom,
                                 dict(buffer=buf.decode(), blocks=parts, command=base + " nr=" + nr, uninterrupted=ref, interrupted=rep,
                                      note="docs/capi.rst says an iterator must not report not-ready once a full pass completed; the property's quantifier includes it"))
    ck.sub("reiteration", executions=n, diverging=bad)
    return n


def entry_points(ck, w, variant="plain"):
    pe = yv.blob("PE32_FILE")
    def text(n):
        return (b"HEAD" + b"." * max(0, n - 8) + b"TAIL")[:n] if n >= 8 else b"H" * n
    wf = "foo".encode("utf-16le")
    # matches whose neighbourhood check looks at the bytes right before the start / after the end of the data: the answer must not depend on what lies outside
    edge = [b"key=" + wf + b"x", b"key=" + wf + b"x\0", b"key=" + wf, wf + b"x", b"x" + wf, b"..xTAIL", b"TAILx", b"...TAIL", b"key=" + "FOO".encode("utf-16le") + b"1"]
    # b"x" + 30 x b"a": the regexp of rule fibs runs out of fibers (ERROR_TOO_MANY_RE_FIBERS from every entry point); the scanner object goes on serving the next buffers
    bufs = [b"", b"L", text(8), text(64), b"x" + b"a" * 30, text(64), text(4095), text(4096), text(4097), text(8192), text(12288), pe, pe + b"\0" * (4096 - len(pe))] + edge
    rep = w.batch(["reset", "compiler 0", "add 0 - " + yv.hx(EP_RULES % ()), "getrules 0 0", "cdestroy 0", "scanner 0 0"])
    assert rep[2]["errors"] == 0, rep[2]
    n = 0
    for b in bufs:
        d = yv.hx(b)
        ways = [("scanner-mem", "scan target=s0 via=mem data=" + d), ("scanner-file", "scan target=s0 via=file data=" + d),
                ("scanner-fd", "scan target=s0 via=fd data=" + d), ("rules-mem", "scan target=r0 via=mem data=" + d),
                ("rules-file", "scan target=r0 via=file data=" + d), ("rules-fd", "scan target=r0 via=fd data=" + d),
                ("scanner-iterator-1block", "scan target=s0 via=blocks data=" + d + (" blocks=0" if not b else "")),
                ("rules-iterator-1block", "scan target=r0 via=blocks data=" + d + (" blocks=0" if not b else ""))]
        try:
            reps = w.batch([c for _, c in ways])
        except (yv.WorkerDied, yv.WorkerHang) as e:
            err = getattr(e, "err", "")
            kind = ("asan:" + err.split("AddressSanitizer: ")[1].split()[0]) if "AddressSanitizer: " in err else "died"
            ck.violation("C13:entry-point:crash:%s:%s" % (kind, (e.cmd.split("via=")[1].split()[0] if "via=" in e.cmd else "?")), dict(size=len(b), data_hex=b[:64].hex(), stderr=err[-2000:]))
            yv.drop_worker(variant); w = yv.get_worker(variant)
            w.batch(["reset", "compiler 0", "add 0 - " + yv.hx(EP_RULES % ()), "getrules 0 0", "cdestroy 0", "scanner 0 0"])
            continue
        ref = obs(reps[0])
        for (name, cmd), r in zip(ways, reps):
            n += 1
            if obs(r) != ref:
                ck.violation("C13:entry-point:%s:size=%s" % (name, "0" if not b else "page-multiple" if len(b) % 4096 == 0 else "other"),
                             dict(size=len(b), entry_point=name, reference_entry_point="scanner-mem", reference=reps[0], observed=r))
    ck.sub("entry-points:" + variant, buffers=len(bufs), executions=n, sizes=[len(b) for b in bufs])
    return n


def wide_ruleset(ck, w):
    """more rules than fit one 64-bit word of the scanner's bitmaps; ONE scanner object serves all its entry points in series (buffers alternate), the rules-level
    calls use a fresh scanner each: all must agree per buffer"""
    text = "\n".join('rule w%02d { strings: $s = "tok%02d" condition: $s }' % (k, k) for k in range(72)) + "\nrule wfs { condition: filesize > 8 }"
    rep = w.batch(["reset", "compiler 0", "add 0 - " + yv.hx(text), "getrules 0 0", "cdestroy 0", "scanner 0 0"])
    assert rep[2]["errors"] == 0, rep[2]
    A, B = b"tok03 tok64 tok66 tok71", b"tok05 nothing else"
    n = 0
    ref = {}
    for b in (A, B): ref[b] = obs(w.cmd("scan target=r0 via=mem data=" + yv.hx(b)))
    seq = [("scanner-mem", A), ("scanner-mem", B), ("scanner-file", B), ("scanner-fd", A), ("scanner-iterator", B), ("scanner-mem", B), ("scanner-file", A), ("scanner-iterator", B)]
    for name, b in seq:
        via = {"scanner-mem": "mem", "scanner-file": "file", "scanner-fd": "fd", "scanner-iterator": "blocks"}[name]
        r = w.cmd("scan target=s0 via=%s data=%s" % (via, yv.hx(b))); n += 1
        if obs(r) != ref[b]:
            extra = sorted(set(m[1] for m in r["t"] if m[0] == "m") ^ set(m[1] for m in json.loads(ref[b])[0] if m[0] == "m"))
            ck.violation("C13:entry-point:wide-rule-set:%s-differs-from-rules-level" % name, dict(buffer=b.decode(), rules_differing=extra[:6])); break
    ck.sub("wide-rule-set", executions=n)
    return n


def executables(ck, w):
    """executable images through the iterator: state derived from an early block (entry point, module values) must survive suspension; every 2- and 3-block
    partition at header-relevant cut points x every non-empty subset of not-ready iterator calls; the final observation must equal the uninterrupted scan of the
    same partition, and - rules without strings - the whole-buffer scan"""
    rules = EP_RULES % () + """
import "elf" import "pe"
rule epv { condition: entrypoint == 0x60 or entrypoint == 0x400 }
rule elft { condition: elf.type == elf.ET_EXEC and elf.entry_point == 0x60 }
rule pes { condition: pe.number_of_sections == 1 and pe.entry_point >= 0 }
"""
    rep = w.batch(["reset", "compiler 0", "add 0 - " + yv.hx(rules), "getrules 0 0", "cdestroy 0", "scanner 0 0"])
    assert rep[2]["errors"] == 0, rep[2]
    n = 0
    for name, buf in (("ELF32", yv.blob("ELF32_FILE")), ("PE32", yv.blob("PE32_FILE"))):
        L = len(buf)
        whole = w.cmd("scan target=s0 via=mem data=" + yv.hx(buf))
        wv = {m[1]: m[0] for m in whole["t"] if m[0] in ("m", "n")}
        parts_list = [(c, L - c) for c in (16, 52, 64, 100, 200, L - 4)] + [(52, 48, L - 100), (64, 64, L - 128), (100, 100, L - 200)]
        for parts in parts_list:
            base = "scan target=s0 via=blocks data=%s blocks=%s" % (yv.hx(buf), ",".join(map(str, parts)))
            ref = w.cmd(base)
            rv = {m[1]: m[0] for m in ref["t"] if m[0] in ("m", "n")}
            for rname in ("default:ep", "default:epv", "default:pe", "default:fs", "default:last", "default:first", "default:empty"):
                if rname in ("default:ep", "default:epv") and parts[0] < (200 if name == "ELF32" else L - 4): continue       # the headers are cut: the entry point legitimately depends on the partition
                if rv.get(rname) != wv.get(rname):
                    ck.violation("C13:executable:partition-differs-from-mem:%s" % rname.split(":")[1], dict(image=name, blocks=parts, mem=wv, iterator=rv))
            ncalls = len(parts) + 1
            cmds, masks = [], []
            for mask in range(1, 1 << ncalls):
                cmds.append(base + " nr=" + ";".join("0.%d.1" % p_ for p_ in range(ncalls) if mask >> p_ & 1)); masks.append(mask)
            for mask, r in zip(masks, w.batch(cmds)):
                n += 1
                if obs(r) != obs(ref) or any(c != [NOT_READY, 0] for c in r["calls"][:-1]):
                    rr = {m[1]: m[0] for m in r["t"] if m[0] in ("m", "n")}
                    diff = sorted(k.split(":")[1] for k in set(rv) | set(rr) if rv.get(k) != rr.get(k)) or ["calls-or-rc"]
                    ck.violation("C13:executable:interrupted-differs:%s" % diff[0], dict(image=name, blocks=parts, notready_positions=[p_ for p_ in range(ncalls) if mask >> p_ & 1], uninterrupted=rv, interrupted=rr, calls=r["calls"]))
    ck.sub("executables", executions=n)
    return n


def main():
    ck = yv.Check("C13", "model_checking")
    maxlen = 6 if ck.tier == "quick" else 8
    bufs = [bytes(t) for n in range(0, maxlen + 1) for t in itertools.product(b"ab", repeat=n)]
    w = yv.get_worker("plain")
    n_ep = entry_points(ck, w)
    wa = yv.get_worker("asan"); n_ep += entry_points(ck, wa, "asan"); yv.drop_worker("asan")      # once more under ASan: a look one byte past the data is a report
    n_re = reiteration(ck, w) + executables(ck, w) + wide_ruleset(ck, w)
    yv.drop_worker("plain")
    distinct = set(); calls = 0
    for res in yv.pmap(run_chunk, [(ck.tier, c) for c in yv.chunked(bufs, 4)], ck):
        ck.cov["evaluations"] += res["evals"]; calls += res["calls"]
        distinct.update(map(tuple, res["distinct"]))
        for sig, d in res["viol"]:
            ck.violation(sig, d)
        if res["sample"]: ck.sample(res["sample"], cap=3)
    ck.cov["evaluations"] += n_ep + n_re
    ck.cov["states"] = len(distinct) or 1
    ck.cov["transitions"] = calls
    ck.cov["traces_validated_against_impl"] = ck.cov["evaluations"]
    ck.cov["distinct_nontrivial"] = len(distinct)
    ck.cov["rule"] = ("every buffer over {a,b} of length <= %d x every composition into <= 4 blocks x every non-empty subset of iterator calls "
                      "(first/next incl. the terminating call) answering not-ready 1x or 2x; states = distinct (block count, not-ready subset, "
                      "repeat) environment scripts that completed with the correct result; transitions = scan calls made; plus 8 entry "
                      "points x 10 buffer sizes, plus the evaluation-time re-iteration sub-space, plus ELF / PE images in 9 partitions x every not-ready subset (entry point and module values must survive suspension)" % maxlen)
    ck.assumptions += ["multi-block partitions legitimately change which matches exist; interrupted scans are compared with the uninterrupted "
                       "scan of the same partition, single-block iterators with mem/file/fd"]
    ck.finish()


if __name__ == "__main__":
    main()
