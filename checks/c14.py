#!/usr/bin/env python3
"""C14 - hash, math and string module functions compute their definitions.
Exhaustive over small buffers: every (offset, length) in [-1 .. n+1]^2 x every contiguous partition into <= 3 blocks + one
iterator with an address gap, for md5/sha1/sha256/crc32/checksum32 (range and string forms) and the math statistics; every
ordered triple of hash calls over a 6-call set (digest cache); string.to_int over bases and shapes; expected values come from
hashlib / zlib / python arithmetic and are written into the rules (`f(...) == expected` / `not defined f(...)`)."""
import hashlib, itertools, math, os, sys, zlib
sys.path.insert(0, os.path.join(os.path.dirname(os.path.abspath(__file__)), "..", "lib"))
import yv

# the two buffers after the first are points exactly ON the Monte-Carlo circle (x^2 + y^2 == r^2: axis point and the 3-4-5 lattice point)
BUFS = [b"\x00" * 6, b"\xff\xff\xff\x00\x00\x00", b"\x99\x99\x99\xcc\xcc\xcc", bytes(range(1, 7)), b"\xff\x80\x90\xfe\x81\xa0", b"aaaaaa", b"abcabc", b"\x00\xff\x00\xff\x00\xff", b"a\x00b", b"Z", b"\x7f\x80", b"hello"]


def addr_map(data, layout):
    """layout: list of ('b', size) / ('g', gap) -> {address: byte}, and the worker's blocks= string"""
    m, addr, off, spec = {}, 0, 0, []
    for kind, k in layout:
        if kind == "g": addr += k; spec.append("g%d" % k)
        else:
            for i in range(k): m[addr + i] = data[off + i]
            addr += k; off += k; spec.append(str(k))
    return m, ",".join(spec)


def addressed(m, o, l):
    """bytes addressed by (o, l) under the definition: undefined if o is not mapped / args negative / a gap interrupts the range;
    clipped at the end of the data"""
    if o < 0 or l < 0 or o not in m: return None
    out, a, last = [], o, max(m)
    while a < o + l:
        if a in m: out.append(m[a]); a += 1
        elif a > last: break                # past the end of the data: clipped
        else: return None                   # hole inside the range
    return bytes(out)


def layouts(n, quick):
    L = [[("b", n)]] if n else [[]]
    for k in (2, 3):
        for cuts in itertools.combinations(range(1, n), k - 1):
            b = (0,) + cuts + (n,)
            L.append([("b", b[i + 1] - b[i]) for i in range(k)])
    if n >= 2:
        L.append([("b", n // 2), ("g", 4), ("b", n - n // 2)])
        L.append([("g", 3), ("b", n)])
    return L


def fl(x): return "%.12f" % float(x)      # the rule language has no exponent notation


def entropy(d):
    if not d: return None
    return -sum((d.count(c) / len(d)) * math.log2(d.count(c) / len(d)) for c in set(d)) + 0.0


def serial(d):
    n = len(d)
    if n == 0: return None
    t1 = sum(d[i] * d[(i + 1) % n] for i in range(n)); t2 = sum(d); t3 = sum(c * c for c in d)
    den = n * t3 - t2 * t2
    if den == 0: return None
    return (n * t1 - t2 * t2) / den


def mcpi(d):
    n = len(d) // 6
    if n == 0: return None
    inc = 0
    for i in range(n):
        x = int.from_bytes(d[6 * i:6 * i + 3], "big"); y = int.from_bytes(d[6 * i + 3:6 * i + 6], "big")
        if x * x + y * y <= (256 ** 3 - 1) ** 2: inc += 1
    return abs((4.0 * inc / n - math.pi) / math.pi)


def near(expr, v, rel=1e-9):
    tol = max(rel, abs(v) * rel)
    return "(%s >= %s and %s <= %s)" % (expr, fl(v - tol), expr, fl(v + tol))


def cases_for(data, m, quick, starts=()):
    """list of (tag, condition that must be TRUE) for one buffer under one address map"""
    n = len(data)
    top = (max(m) + 1) if m else 0
    out = []
    rng = range(-1, top + 2)
    for o in rng:
        for l in rng:
            d = addressed(m, o, l)
            zl = ":zero-length-at-start-of-a-later-block" if (l == 0 and o in starts and o != min(starts)) else ""
            for fn, ref in (("md5", lambda x: hashlib.md5(x).hexdigest()), ("sha1", lambda x: hashlib.sha1(x).hexdigest()), ("sha256", lambda x: hashlib.sha256(x).hexdigest())):
                e = "hash.%s(%d, %d)" % (fn, o, l)
                out.append(("hash:" + fn + zl, ("not defined " + e) if d is None else '%s == "%s"' % (e, ref(d))))
            for fn, ref in (("crc32", lambda x: zlib.crc32(x) & 0xffffffff), ("checksum32", lambda x: sum(x) & 0xffffffff)):
                e = "hash.%s(%d, %d)" % (fn, o, l)
                out.append(("hash:" + fn + zl, ("not defined " + e) if d is None else "%s == %d" % (e, ref(d))))
            # math statistics over ranges; empty addressed ranges have no mathematical value: only "does not crash" is demanded of them
            for fn, ref in (("entropy", entropy), ("mean", lambda x: (sum(x) / len(x)) if x else None), ("serial_correlation", serial), ("monte_carlo_pi", mcpi)):
                e = "math.%s(%d, %d)" % (fn, o, l)
                if d is None: out.append(("math:" + fn, "not defined " + e))
                elif ref(d) is None: out.append(("math:%s:nocrash" % fn, "defined %s or true" % e))
                else: out.append(("math:" + fn, near(e, ref(d))))
            e = "math.deviation(%d, %d, 100.0)" % (o, l)
            if d is None: out.append(("math:deviation", "not defined " + e))
            elif d: out.append(("math:deviation", near(e, sum(abs(c - 100.0) for c in d) / len(d))))
            for byte in (0x00, 0x61, 0xff):
                e = "math.count(0x%02x, %d, %d)" % (byte, o, l)
                out.append(("math:count" + zl, ("not defined " + e) if d is None else "%s == %d" % (e, d.count(byte))))
                if d:
                    out.append(("math:percentage", near("math.percentage(0x%02x, %d, %d)" % (byte, o, l), d.count(byte) / len(d), 1e-6)))
            e = "math.mode(%d, %d)" % (o, l)
            if d is None: out.append(("math:mode", "not defined " + e))
            elif d:
                best = max(d.count(c) for c in set(d)); modes = sorted(c for c in set(d) if d.count(c) == best)
                out.append(("math:mode", "(" + " or ".join("%s == %d" % (e, c) for c in modes) + ")"))
    whole = addressed(m, min(m), top) if m else b""
    if whole is not None and m and min(m) == 0:
        for byte in (0x00, 0x61):
            out.append(("math:count:whole", "math.count(0x%02x) == %d" % (byte, whole.count(byte))))
        best = max(whole.count(c) for c in set(whole)); modes = sorted(c for c in set(whole) if whole.count(c) == best)
        out.append(("math:mode:whole", "(" + " or ".join("math.mode() == %d" % c for c in modes) + ")"))
    return out


def string_cases():
    out = []
    S = [b"", b"a", b"a\x00b", b"\xff\x80", b"a" * 64, b"dummy", b"\x00"]
    def lit(s): return '"' + "".join("\\x%02x" % c for c in s) + '"'
    for s in S:
        out.append(("hash:str", 'hash.md5(%s) == "%s"' % (lit(s), hashlib.md5(s).hexdigest())))
        out.append(("hash:str", 'hash.sha1(%s) == "%s"' % (lit(s), hashlib.sha1(s).hexdigest())))
        out.append(("hash:str", 'hash.sha256(%s) == "%s"' % (lit(s), hashlib.sha256(s).hexdigest())))
        out.append(("hash:str", "hash.crc32(%s) == %d" % (lit(s), zlib.crc32(s) & 0xffffffff)))
        out.append(("hash:str", "hash.checksum32(%s) == %d" % (lit(s), sum(s) & 0xffffffff)))
        out.append(("string:length", "string.length(%s) == %d" % (lit(s), len(s))))
        if s:
            out.append(("math:str", near("math.entropy(%s)" % lit(s), entropy(s))))
            out.append(("math:str", near("math.mean(%s)" % lit(s), sum(s) / len(s))))
            out.append(("math:str", near("math.deviation(%s, 50.0)" % lit(s), sum(abs(c - 50.0) for c in s) / len(s))))
            if serial(s) is not None: out.append(("math:str", near("math.serial_correlation(%s)" % lit(s), serial(s))))
            if mcpi(s) is not None: out.append(("math:str", near("math.monte_carlo_pi(%s)" % lit(s), mcpi(s))))
    # integer helpers
    I63 = (1 << 63) - 1
    for a in (0, 1, -1, 5, I63, -I63):
        out.append(("math:abs", "math.abs(%d) == %d" % (a, abs(a))))
        out.append(("math:to_string", 'math.to_string(%d) == "%d"' % (a, a)))
        out.append(("math:to_string", 'math.to_string(%d, 16) == "%x"' % (a, a & ((1 << 64) - 1))))
        out.append(("math:to_string", 'math.to_string(%d, 8) == "%o"' % (a, a & ((1 << 64) - 1))))
        for b in (0, 1, 7, I63):
            if a >= 0:
                out.append(("math:minmax", "math.max(%d, %d) == %d" % (a, b, max(a, b)))); out.append(("math:minmax", "math.min(%d, %d) == %d" % (a, b, min(a, b))))
    out.append(("math:to_number", "math.to_number(true) == 1 and math.to_number(false) == 0"))
    for (t, lo, hi) in ((1.5, 1.0, 2.0), (1.0, 1.0, 2.0), (2.0, 1.0, 2.0), (0.99, 1.0, 2.0), (2.01, 1.0, 2.0)):
        out.append(("math:in_range", ("" if lo <= t <= hi else "not ") + "math.in_range(%s, %s, %s)" % (fl(t), fl(lo), fl(hi))))
    # string.to_int by definition (strtoll-like: optional sign, base prefix; trailing garbage or empty -> undefined)
    def to_int(s, base):
        t = s; sign = 1
        if t[:1] in ("+", "-"): sign = -1 if t[0] == "-" else 1; t = t[1:]
        b = base
        if b == 0:
            if t[:2].lower() == "0x": b = 16; t = t[2:]
            elif t[:1] == "0" and len(t) > 1: b = 8; t = t[1:]
            else: b = 10
        elif b == 16 and t[:2].lower() == "0x": t = t[2:]
        if not t: return None
        digs = "0123456789abcdefghijklmnopqrstuvwxyz"[:b]
        if any(c.lower() not in digs for c in t): return None
        v = sign * int(t, b)
        return v if -(1 << 63) <= v <= I63 else None
    for s in ("0", "1234", "-10", "+7", "-010", "011", "0x1f", "-0x10", "ff", "zz", "12ab", "", "-", "9223372036854775807", "9223372036854775808", "-9223372036854775808", "0x", "08"):
        for base in (None, 0, 8, 10, 16, 36, 2):
            v = to_int(s, 0 if base is None else base)
            e = 'string.to_int("%s"%s)' % (s, "" if base is None else ", %d" % base)
            out.append(("string:to_int:%s" % ("default" if base is None else "base%d" % base), ("not defined " + e) if v is None else
                        ("%s == %d" % (e, v) if v != -(1 << 63) else "%s == -9223372036854775807 - 1" % e)))
    # bases outside 0, 2..36 are undefined - also those whose low 32 (or 8, 16) bits look like a legal base
    for base in (1, 37, -1, -10, 256 + 10, 65536 + 16, (1 << 31), (1 << 32), (1 << 32) + 10, (1 << 32) + 16, -(1 << 32) + 8, (1 << 33) + 2, (1 << 32) + 36, I63, -I63):
        for s in ("10", "ff", "0", "-7"):
            out.append(("string:to_int:invalid-base", 'not defined string.to_int("%s", %d)' % (s, base)))
    for base in (2, 3, 35, 36):
        top = "0123456789abcdefghijklmnopqrstuvwxyz"[base - 1]
        out.append(("string:to_int:base%d" % base, 'string.to_int("1%s", %d) == %d' % (top, base, base + base - 1)))
        if base < 36:
            out.append(("string:to_int:base%d" % base, 'not defined string.to_int("1%s", %d)' % ("0123456789abcdefghijklmnopqrstuvwxyz"[base], base)))
    return out


def cache_cases(data):
    """every ordered triple over a 6-call set in one rule, and pairs spread over two rules of one scan"""
    n = len(data)
    m, _ = addr_map(data, [("b", n)])
    calls = [("md5", 0, n), ("sha1", 0, n), ("md5", 1, 2), ("md5", 2, 1), ("sha256", 1, 2), ("sha1", 1, 2), ("md5", 0, 0), ("sha1", 3, 0), ("sha1", 0, 3), ("sha1", n, 1), ("md5", 1, n + 3), ("sha1", 1, n + 3)]
    def cond(c):
        fn, o, l = c
        d = addressed(m, o, l); e = "hash.%s(%d, %d)" % (fn, o, l)
        return ("not defined " + e) if d is None else '%s == "%s"' % (e, getattr(hashlib, fn)(d).hexdigest())
    out = []
    for tri in itertools.permutations(calls, 3):
        zl = ":zero-length-at-start-of-a-later-block" if any(c[2] == 0 and c[1] == n // 2 for c in tri) else ""
        out.append(("hash:cache-order" + zl, " and ".join(cond(c) for c in tri)))
    return out


def run_chunk(arg):
    data, layout_specs, items = arg
    w = yv.get_worker("plain")
    rules = "\n".join("rule c%d { condition: %s }" % (i, cond) for i, (tag, cond) in enumerate(items))
    # evaluated first in every scan: an `of` expression over a non-empty set and module calls with an undefined argument - whatever bookkeeping they leave in the
    # VM's locals must not leak into the calls that follow (all rules of a scan run in one yr_execute_code invocation)
    pre = ('rule pre1 { strings: $p = "zq" $q = "qz" condition: 1 of them or 2 of ($p, $q) or true }\n'
           'rule pre2 { condition: hash.md5(0, uint8(100000)) == "x" or math.to_string(uint8(100000)) == "x" or string.to_int("99999999999999999999") == 1 or true }\n')
    text = 'import "hash" import "math" import "string"\n' + pre + rules
    rep = w.batch(["reset", "compiler 0", "add 0 - " + yv.hx(text), "getrules 0 0", "cdestroy 0", "scanner 0 0"] +
                  ["scan target=s0 via=%s ml=0 data=%s %s" % ("mem" if spec is None else "blocks", yv.hx(data), "" if spec is None else "blocks=" + spec) for spec in layout_specs])
    if rep[2]["errors"]:
        return [("cerr", None, rep[2]["msgs"][:2], items[:3])]
    out = []
    for spec, r in zip(layout_specs, rep[6:]):
        if r["rc"] != 0:
            out.append(("rc", spec, r["rc"], None)); continue
        verdicts = {m_[1].split(":")[1]: m_[0] == "m" for m_ in r["t"] if m_[0] in ("m", "n")}
        for i, (tag, cond) in enumerate(items):
            if not verdicts.get("c%d" % i):
                out.append(("false", spec, tag, cond))
    return out


def main():
    ck = yv.Check("C14", "exploration")
    quick = ck.tier == "quick"
    jobs = []
    ncases = 0
    bufs = BUFS if not quick else BUFS[:9]
    if not quick:
        bufs = bufs + [bytes(range(200, 208)), b"abcdefg"]
    for data in bufs:
        n = len(data)
        for lay in layouts(n, quick):
            m, spec = addr_map(data, lay)
            starts, a_ = [], 0
            for kind, k in lay:
                if kind == "b": starts.append(a_)
                a_ += k
            items = cases_for(data, m, quick, starts)
            specs = [spec] + ([None] if len(lay) == 1 and lay[0][0] == "b" else [])
            for ch in yv.chunked(items, 200):
                jobs.append((data, specs, ch)); ncases += len(ch) * len(specs)
        cc = cache_cases(data)
        if quick: cc = cc[::3]
        for ch in yv.chunked(cc, 150):
            jobs.append((data, [None, "%d,%d" % (n // 2, n - n // 2)] if n >= 2 else [None], ch)); ncases += len(ch)
    sc = string_cases()
    for ch in yv.chunked(sc, 200):
        jobs.append((b"x", [None], ch)); ncases += len(ch)
    distinct = set()
    for res in yv.pmap(run_chunk, jobs, ck):
        for (kind, spec, a, b) in res:
            if kind == "cerr":
                ck.violation("C14:case-does-not-compile", dict(messages=a, first_cases=b))
            elif kind == "rc":
                ck.violation("C14:scan-error:rc=%s" % a, dict(layout=spec))
            else:
                multi = "multi-block" if (spec and "," in spec) else "single-block"
                gap = ":gap" if (spec and "g" in spec) else ""
                ck.violation("C14:wrong-value:%s:%s%s" % (a, multi, gap), dict(condition_expected_true=b, layout=spec or "mem"))
    ck.cov["evaluations"] = ncases
    ck.cov["distinct_nontrivial"] = ncases
    ck.sample(dict(buffer=BUFS[1].hex(), layout="2,4", case=cases_for(BUFS[1], addr_map(BUFS[1], [("b", 2), ("b", 4)])[0], True)[40][1]))
    ck.sample(dict(case=sc[0][1]))
    ck.cov["rule"] = ("a case = one function call with its expected value (from hashlib/zlib/python math) written into a rule; all (offset,length) in [-1..n+1]^2 over %d "
                      "buffers (n<=6, thorough n<=8) x every contiguous partition into <=3 blocks + 2 address-gap layouts, for 5 hash functions and the math statistics; "
                      "all ordered triples of hash calls over a 12-call set (cache); string/int helper tables; every case is distinct") % len(bufs)
    ck.assumptions += ["a range is undefined iff offset/length are negative, the offset is not mapped, or an address hole interrupts it; it is clipped at the end of the data",
                       "statistics of an empty range have no mathematical value: only absence of a crash is checked there",
                       "serial correlation = circular lag-1 coefficient (ENT), monte_carlo_pi = ENT's 6-byte sampling; floats compared with relative tolerance 1e-9"]
    ck.finish()


if __name__ == "__main__":
    main()
