#!/usr/bin/env python3
"""C15 - exceeding engine limits yields the documented error, not a crash or hang.
A table of limits; each is driven at L-1, L, L+1 and far beyond for every configured L (shipped constants and the build with
scaled constants).  After every above-limit case the library must remain usable (canary compile+scan, same scanner reused,
live allocations back).  Timeouts: the harness owns the clock; for each long-running rule shape the deadline passes at the k-th
clock poll for EVERY k up to the number of polls of the untimed run (capped): the scan must return ERROR_SCAN_TIMEOUT at that
very poll, deliver no rule message afterwards and leave the scanner reusable."""
import json, os, sys, time
sys.path.insert(0, os.path.join(os.path.dirname(os.path.abspath(__file__)), "..", "lib"))
import yv

E = dict(TOO_MANY_MATCHES=30, STACK=25, RE_COMPLEX=49, RE_LARGE=45, FIBERS=46, LOOP_NEST=12, TOO_MANY_STRINGS=51, INCLUDE_DEPTH=23, INT_OVERFLOW=52, TIMEOUT=26, SYNTAX=11,
         INVALID_MOD=59, DUP_LOOP=13, INVALID_VALUE=64, TOO_MANY_ARGS=39, WRONG_ARGS=40)
CANARY = ["compiler 3", "add 3 - " + yv.hx('rule canary { strings: $a = "abcd" condition: $a }'), "getrules 3 7", "cdestroy 3", "scan target=r7 via=mem ml=0 data=" + yv.hx(b"xxabcdxx"), "rdestroy 7"]


def canary_ok(rep):
    return rep[1].get("errors") == 0 and rep[4].get("rc") == 0 and [m[0] for m in rep[4]["t"]] == ["m", "fin"]


class Ctx:
    def __init__(self, ck, variant):
        self.ck, self.variant = ck, variant
        self.w = yv.get_worker(variant)
        self.n = 0

    def batch(self, cmds):
        try:
            return self.w.batch(cmds)
        except (yv.WorkerDied, yv.WorkerHang) as e:
            yv.drop_worker(self.variant); self.w = yv.get_worker(self.variant)
            return e

    def compile_case(self, limit, label, text, expect_err, incfiles=(), cfg=(), defs=(), msgkey=None, copts=""):
        """expect_err: None (must compile) or an error code that `last` must equal"""
        self.n += 1
        cmds = ["reset", "incclear"] + list(cfg) + ["incfile %s %s" % (n, yv.hx(t)) for n, t in incfiles] + ["compiler 0 inc=%d%s" % (1 if incfiles else 0, copts)] + list(defs)
        cmds += ["add 0 - " + yv.hx(text), "getrules 0 0", "cdestroy 0", "reset"] + CANARY
        rep = self.batch(cmds)
        if isinstance(rep, Exception):
            self.ck.violation("C15:%s:crash" % limit, dict(case=label, error=str(rep), stderr=getattr(rep, "err", "")[-2000:])); return None
        add = [r for r in rep if "errors" in r][0]
        if not canary_ok(rep[-len(CANARY):]):
            self.ck.violation("C15:%s:library-unusable-afterwards" % limit, dict(case=label))
        if isinstance(expect_err, str):
            allowed = (E["RE_COMPLEX"],) if expect_err == "either" else (E["RE_LARGE"], E["RE_COMPLEX"])
            if add["errors"] and (add["last"] not in allowed or add["cb_errors"] < 1):
                self.ck.violation("C15:%s:wrong-error" % limit, dict(case=label, expected=list(allowed), got=add["last"], messages=add["msgs"][:2]))
            return add
        if expect_err == -1:
            if not add["errors"]:
                self.ck.violation("C15:%s:accepted-above-limit" % limit, dict(case=label))
            elif add["cb_errors"] < 1:
                self.ck.violation("C15:%s:error-without-diagnostic" % limit, dict(case=label))
            return add
        if expect_err is None:
            if add["errors"]:
                self.ck.violation("C15:%s:rejected-below-limit" % limit, dict(case=label, messages=add["msgs"][:2]))
            return add
        if not add["errors"]:
            self.ck.violation("C15:%s:accepted-above-limit" % limit, dict(case=label))
        elif (add["last"] != expect_err and not (msgkey and any(msgkey in m[2] for m in add["msgs"]))) or add["cb_errors"] < 1:
            self.ck.violation("C15:%s:wrong-error" % limit, dict(case=label, expected=expect_err, got=add["last"], messages=add["msgs"][:2]))
        return add


def limits_compile(cx, quick):
    # ---- loop nesting (4)
    for d in (3, 4, 5, 6, 12):
        body = "true"
        for i in range(d, 0, -1):
            body = "for any v%d in (0..1) : (%s)" % (i, body)
        cx.compile_case("loop-nesting", "depth=%d" % d, "rule r { condition: %s }" % body, None if d <= 4 else E["LOOP_NEST"])
    # ---- an error inside nested loops (the nesting limit itself, or any other error at depth 1..4) followed by MORE rules that use loops, in the same source: exactly
    # that one error, no crash (the compiler unwinds its loop bookkeeping on the error path; the parser goes on with the next rule)
    kinds = [lambda v, b: "for any %s in (0..1) : (%s)" % (v, b), lambda v, b: "for all %s in (1, 2) : (%s)" % (v, b), lambda v, b: 'for any %s in ("a", "b") : (%s)' % (v, b),
             lambda v, b: "for any of them : (%s)" % b if "of them" not in b else "for any %s in (0..1) : (%s)" % (v, b)]
    tails = ['rule t1 { condition: for any a in (0..1) : (for any b in (0..1) : (a == b)) }', 'rule t2 { strings: $s = "x" condition: for any of them : ($) and for all i in (1..2) : (@s[i] >= 0) }',
             'rule t3 { condition: for any a in (0..1) : (for any b in (0..1) : (for any c in (0..1) : (for any d in (0..1) : (a + b + c + d > 5)))) }']
    for d in range(1, 8):
        for rot in range(len(kinds)):
            for inner, code in (("true", None if d <= 4 else E["LOOP_NEST"]), ("undefined_identifier_xyz == 1", None), ("v1 + true", None)):
                body = inner
                for i in range(d, 0, -1):
                    body = kinds[(i + rot) % len(kinds)]("v%d" % i, body)
                decl = 'strings: $q = "q" ' if "of them" in body else ""
                for ntail in (0, 1, 3):
                    text = "rule r { %scondition: %s } " % (decl, body) + " ".join(tails[:ntail])
                    if inner == "true":
                        add = cx.compile_case("loop-nesting", "depth=%d kinds=%d then %d more rules" % (d, rot, ntail), text, code)
                    elif d <= 4:
                        add = cx.compile_case("loop-nesting", "error at depth=%d (%s) kinds=%d then %d more rules" % (d, inner, rot, ntail), text, -1)
                    else:
                        continue
                    if add and add["errors"] > 1:
                        cx.ck.violation("C15:loop-nesting:more-than-one-error", dict(case=text, errors=add["errors"], messages=add["msgs"][:3]))
    # ---- strings per rule (configurable)
    for L in (1, 2, 10, 10000):
        for s in sorted(set(x for x in (L - 1, L, L + 1, 2 * L, 10 * L) if 1 <= x <= 25000)):
            if quick and s > 11000: continue
            strs = " ".join('$s%d = "str%05d"' % (i, i) for i in range(s))
            cx.compile_case("strings-per-rule", "L=%d strings=%d" % (L, s), "rule r { strings: %s condition: any of them }" % strs, None if s <= L else E["TOO_MANY_STRINGS"], cfg=["cfg maxstrings %d" % L])
    cx.w.cmd("cfg maxstrings 10000")
    # ---- include depth (16)
    for d in (1, 15, 16, 17, 18, 40):
        files = [("f%d.yar" % i, ('include "f%d.yar"\n' % (i + 1) if i < d else "") + "rule inc%d { condition: true }" % i) for i in range(1, d + 1)]
        cx.compile_case("include-depth", "depth=%d" % d, 'include "f1.yar"\nrule top { condition: true }', None if d <= 16 else E["INCLUDE_DEPTH"], incfiles=files, msgkey="depth exceeded")
    # circular include
    cx.compile_case("include-depth", "circular", 'include "a.yar"', 22, incfiles=[("a.yar", 'include "b.yar"'), ("b.yar", 'include "a.yar"')], msgkey="circular")
    # ---- identifier length (128)
    for n in (127, 128, 129, 200, 4000):
        cx.compile_case("identifier-length", "rule name len=%d" % n, "rule %s { condition: true }" % ("r" * n), None if n <= 128 else E["SYNTAX"], msgkey="too long")
    # ---- integer literals
    ok = ["9223372036854775807", "0x7FFFFFFFFFFFFFFF", "0o777777777777777777777", "9007199254740991KB", "8796093022207MB", "0", "0x0", "1KB", "1MB"]
    bad = ["9223372036854775808", "0x8000000000000000", "0o1000000000000000000000", "9007199254740992KB", "8796093022208MB", "99999999999999999999999", "0xFFFFFFFFFFFFFFFFF", "18446744073709551616"]
    for lit in ok: cx.compile_case("integer-literal", lit, "rule r { condition: filesize < %s or true }" % lit, None)
    for lit in bad: cx.compile_case("integer-literal", lit, "rule r { condition: filesize < %s or true }" % lit, E["INT_OVERFLOW"], msgkey="overflow")
    for lit in ok[:3]:
        cx.compile_case("integer-literal", lit + "+1", "rule r { condition: filesize < %s + 1 }" % lit, E["INT_OVERFLOW"], msgkey="overflow")
        cx.compile_case("integer-literal", "-" + lit + "-1", "rule r { condition: filesize > -%s - 1 }" % lit, None)
        cx.compile_case("integer-literal", "-" + lit + "-2", "rule r { condition: filesize > -%s - 2 }" % lit, E["INT_OVERFLOW"], msgkey="overflow")
        cx.compile_case("integer-literal", lit + "*2", "rule r { condition: filesize < %s * 2 }" % lit, E["INT_OVERFLOW"], msgkey="overflow")
    # ---- loop variables (2 for dictionaries, 1 otherwise), xor range, base64 alphabet, function arguments
    cx.compile_case("loop-vars", "dict 2 vars", 'import "tests" rule r { condition: for any k, v in tests.string_dict : (k == v) }', None)
    cx.compile_case("loop-vars", "dict 3 vars", 'import "tests" rule r { condition: for any k, v, w in tests.string_dict : (k == v) }', E["SYNTAX"])
    cx.compile_case("loop-vars", "range 2 vars", "rule r { condition: for any i, j in (0..3) : (i == j) }", E["SYNTAX"])
    cx.compile_case("loop-vars", "duplicate", "rule r { condition: for any i in (0..3) : (for any i in (0..1) : (i == 1)) }", E["DUP_LOOP"])
    for (lo, hi, okk) in ((0, 255, True), (0, 0, True), (255, 255, True), (0, 256, False), (256, 256, False), (5, 4, False), (-1, 3, False)):
        cx.compile_case("xor-range", "xor(%d-%d)" % (lo, hi), 'rule r { strings: $a = "abcd" xor(%d-%d) condition: $a }' % (lo, hi), None if okk else -1)
    for n in (63, 64, 65, 0, 128):
        cx.compile_case("base64-alphabet", "len=%d" % n, 'rule r { strings: $a = "abcd" base64("%s") condition: $a }' % ("".join(chr(48 + i) for i in range(n)).replace("\\", "\\\\").replace('"', "\\x22")), None if n == 64 else -1)
    for n in (2, 3, 4, 127, 128, 129, 300):
        args = ", ".join(["1"] * n)
        cx.compile_case("function-args", "isum with %d args" % n, 'import "tests" rule r { condition: tests.isum(%s) > 0 }' % args, None if n in (2, 3) else -1)


def regex_limits(cx, quick):
    small = ("small" in cx.variant)
    L = 8 if small else 128
    for k in sorted(set([1, L - 2, L - 1, L, L + 1, L + 2, 2 * L, 10 * L])):
        if k < 1 or k > 2000: continue
        re_ = "x" + "a?" * k + "y"
        add = cx.compile_case("regex-splits", "k=%d %s" % (k, "scaled" if small else "real"), "rule r { strings: $a = /%s/ condition: $a }" % re_, None if k < L - 1 else (E["RE_COMPLEX"] if k > L + 1 else "either"))
    # the same limits for a regexp in every POSITION (string, operand of `matches`, function argument), with strict escape checking off and on, with and without an
    # unknown escape sequence in it (with strict checking that is a warning raised by the regexp parser - it must not mask the limit error raised afterwards)
    for k in (L - 2, L + 2, 2 * L, 10 * L):
        if k < 1 or k > 2000: continue
        for esc in ("", "\\g"):
            body = "x" + esc + "a?" * k + "y"
            for pos, text in (("string", "rule r { strings: $a = /%s/ condition: $a }" % body), ("matches", 'rule r { condition: "xy" matches /%s/ }' % body),
                              ("function-argument", 'import "pe" rule r { condition: pe.exports(/%s/) }' % body)):
                for strict in (0, 1):
                    cx.compile_case("regex-splits", "k=%d %s escape=%r strict=%d" % (k, pos, esc, strict), text, None if k < L - 1 else E["RE_COMPLEX"], copts=" strict=%d" % strict)
    for esc in ("", "\\g"):
        for pos, tmpl in (("string", "rule r { strings: $a = /%s/ condition: $a }"), ("matches", 'rule r { condition: "xy" matches /%s/ }')):
            for strict in (0, 1):
                cx.compile_case("regex-size", "%s escape=%r strict=%d" % (pos, esc, strict), tmpl % ("x" + esc + "((abc|def|ghi|jkl){500}){20}"), "either-large", copts=" strict=%d" % strict)
    # boundary must exist and be sharp: find it
    res = {}
    for k in range(max(1, L - 3), L + 4):
        rep = cx.batch(["reset", "compiler 0", "add 0 - " + yv.hx("rule r { strings: $a = /x%sy/ condition: $a }" % ("a?" * k)), "cdestroy 0"])
        res[k] = rep[2]["last"] if not isinstance(rep, Exception) and rep[2]["errors"] else 0
    ks = sorted(res)
    first_bad = [k for k in ks if res[k]]
    if not first_bad or any(res[k] == 0 for k in ks if k > first_bad[0]) or any(res[k] not in (0, E["RE_COMPLEX"]) for k in ks):
        cx.ck.violation("C15:regex-splits:no-sharp-boundary", dict(results=res, limit=L))
    cx.ck.sub("regex-splits", limit=L, first_rejected=first_bad[0] if first_bad else None)
    # code size
    for (inner, n, m) in (("abcdefghij", 100, 1), ("abcdefghij", 1000, 4), ("a{1000}", 1, 40), ("(abc|def|ghi|jkl){500}", 1, 20), ("[a-z]{2000}", 1, 20)):
        re_ = "(%s){%d}" % (inner, n) if n > 1 else inner
        re_ = "(" + re_ + "){%d}" % m if m > 1 else re_
        cx.compile_case("regex-size", re_[:50], "rule r { strings: $a = /%s/ condition: $a }" % re_, "either-large")
    # fibers at scan time
    # the fiber that breaks the limit can be requested after a consuming instruction, after a zero-width assertion (\b \B ^ $) or during the initial expansion:
    # shapes with the branching behind / in front of assertions; afterwards a benign REGEX (it needs fibers from the same pool) must still match on the same scanner
    shapes = ["(a|b|ab)*c", "(a?){6}b", "(.?)*x", "(a*)*b", "(a|aa|aaa)*$", "a*a*a*a*a*b", "l((\\w,\\b){1,30}){1,40}!", "l((\\w\\b,|\\w\\B,){1,20}){1,30}!", "l(\\b(a|aa|ab)){1,40}$",
              "((a|ab)\\B(b|a)*)*c", "l((\\w,){1,30}\\b){1,40}!"]
    bufs = [b"a" * 10, b"ab" * 8, b"a" * 30 + b"b", b"abab" * 10 + b"c", b"l" + b"a," * 60 + b"?", b"l" + b"aab" * 30]
    for sh in shapes:
        rep = cx.batch(["reset", "compiler 0", "add 0 - " + yv.hx("rule r { strings: $a = /%s/ condition: $a } rule other { strings: $b = /q+[rs]\\b/ condition: $b }" % sh), "getrules 0 0", "cdestroy 0", "scanner 0 0"] +
                       ["scan target=s0 via=mem ml=0 data=" + yv.hx(b) for b in bufs] + ["scan target=s0 via=mem ml=0 data=" + yv.hx(b"zz qqr zz"), "sdestroy 0", "live", "reset"] + CANARY)
        cx.n += 1
        if isinstance(rep, Exception):
            cx.ck.violation("C15:regex-fibers:crash", dict(regex=sh, error=str(rep), stderr=getattr(rep, "err", "")[-1500:])); continue
        if rep[2]["errors"]: continue
        scans = rep[6:6 + len(bufs)]
        for b, r in zip(bufs, scans):
            if r["rc"] not in (0, E["FIBERS"]):
                cx.ck.violation("C15:regex-fibers:unexpected-rc", dict(regex=sh, buffer=b.decode(), rc=r["rc"]))
        after = rep[6 + len(bufs)]
        if after["rc"] != 0 or ["m", "default:other"] not in [m[:2] for m in after["t"]]:
            cx.ck.violation("C15:regex-fibers:scanner-unusable-after-limit", dict(regex=sh, after=after))
        if not canary_ok(rep[-len(CANARY):]):
            cx.ck.violation("C15:regex-fibers:library-unusable-afterwards", dict(regex=sh))


def stack_limits(cx, quick):
    for S in ((8, 64) if quick else (8, 64, 1024, 16384)):
        depths = sorted(set(d for d in list(range(1, min(S, 80) + 6)) + [S - 2, S - 1, S, S + 1, S + 2, 2 * S, 10 * S] if 1 <= d <= 40000))
        shapes = {"nested-sum": lambda d: ("1 + (" * (d - 1) + "1" + ")" * (d - 1) + " == %d" % d, True),
                  "enumeration": lambda d: ("for any i in (%s) : (i == %d)" % (", ".join(str(i) for i in range(1, d + 1)), d), True),
                  "string-set": lambda d: ("%d of (%s)" % (1, ", ".join("$s%d" % i for i in range(d))), True)}
        for name, mk in shapes.items():
            outcome = {}
            ds = [d for d in depths if not (name == "nested-sum" and d > 3000) and not (name != "nested-sum" and d > 9000)]
            for d in ds:
                cond, expv = mk(d)
                strs = ("strings: " + " ".join('$s%d = "s%05dx"' % (i, i) for i in range(d)) + " ") if name == "string-set" else ""
                data = b"s00000x" if name == "string-set" else b"zz"
                rep = cx.batch(["reset", "cfg stack %d" % S, "compiler 0", "add 0 - " + yv.hx("rule r { %scondition: %s }" % (strs, cond)), "getrules 0 0", "cdestroy 0", "scanner 0 0",
                                "scan target=s0 via=mem ml=0 data=" + yv.hx(data), "scan target=s0 via=mem ml=0 data=" + yv.hx(data), "reset", "cfg stack 16384"] + CANARY)
                cx.n += 1
                if isinstance(rep, Exception):
                    cx.w.cmd("cfg stack 16384")
                    cx.ck.violation("C15:stack:%s:crash" % name, dict(stack=S, depth=d, error=str(rep), stderr=getattr(rep, "err", "")[-1500:])); outcome[d] = "crash"; continue
                if rep[3]["errors"]:
                    outcome[d] = "compile-error:%d" % rep[3]["last"]; continue
                r = rep[7]
                if r["rc"] == 0:
                    v = [m[0] for m in r["t"] if m[0] in ("m", "n")]
                    outcome[d] = "ok" if v == ["m"] else "WRONG-VERDICT"
                    if v != ["m"]:
                        cx.ck.violation("C15:stack:%s:wrong-verdict-instead-of-error" % name, dict(stack=S, depth=d, condition=cond[:200], trace=r["t"]))
                elif r["rc"] == E["STACK"]:
                    outcome[d] = "overflow"
                    if rep[8]["rc"] != E["STACK"]:
                        cx.ck.violation("C15:stack:%s:second-scan-differs" % name, dict(stack=S, depth=d, second=rep[8]))
                else:
                    outcome[d] = "rc=%d" % r["rc"]
                    cx.ck.violation("C15:stack:%s:unexpected-rc" % name, dict(stack=S, depth=d, rc=r["rc"]))
                if not canary_ok(rep[-len(CANARY):]):
                    cx.ck.violation("C15:stack:%s:library-unusable-afterwards" % name, dict(stack=S, depth=d))
            oks = [d for d in ds if outcome.get(d) == "ok"]; ovs = [d for d in ds if outcome.get(d) == "overflow"]
            # sharp boundary: everything below the first overflow is ok, everything above (that compiles) overflows
            if ovs and oks and max(oks) > min(ovs):
                cx.ck.violation("C15:stack:%s:boundary-not-monotonic" % name, dict(stack=S, ok=oks[-5:], overflow=ovs[:5]))
            if not ovs and name == "nested-sum" and max(ds) >= 2 * S:
                cx.ck.violation("C15:stack:%s:never-overflows" % name, dict(stack=S, outcomes=list(outcome.items())[-6:]))
            cx.ck.sub("stack", **{"S=%d:%s" % (S, name): "ok<=%s overflow>=%s" % (max(oks) if oks else None, min(ovs) if ovs else None)})


def match_limits(cx, quick):
    small = ("small" in cx.variant)
    L = 8 if small else 1000000
    filler = " ".join('$f%d = "fill%03d"' % (i, i) for i in range(70))
    rules = 'rule filler { strings: %s condition: any of them } rule hot { strings: $hot = "q" condition: $hot } rule cold { strings: $c = "zz" condition: #c == 2 } rule both { strings: $x = "q" $y = "zz" condition: #y == 2 and $x }' % filler
    setup = ["reset", "compiler 0", "add 0 - " + yv.hx(rules), "getrules 0 0", "cdestroy 0", "scanner 0 0"]
    ss = sorted(set(s for s in (L - 1, L, L + 1, 2 * L, 10 * L) if 0 < s <= 2100000))
    if not small and quick: ss = []
    normal = b"zz q zz"
    for s in ss:
        data = b"zz" + b"q" * s + b"zz"
        for mode in ("continue", "abort", "error"):
            rep0 = cx.batch(setup + ["blob 9 " + yv.hx(data), "scan target=s0 via=mem ml=0 data=@9"])
            if isinstance(rep0, Exception):
                cx.ck.violation("C15:matches-per-string:crash", dict(matches=s, error=str(rep0))); continue
            tr = rep0[-1]["t"]
            ktmm = [i for i, m in enumerate(tr) if m[0] == "tmm"]
            cx.n += 1
            if s <= L:
                if ktmm or rep0[-1]["rc"] != 0:
                    cx.ck.violation("C15:matches-per-string:warning-at-or-below-limit", dict(matches=s, limit=L, trace=tr[:6]))
                break
            if not ktmm:
                cx.ck.violation("C15:matches-per-string:no-warning-above-limit", dict(matches=s, limit=L, rc=rep0[-1]["rc"])); break
            if len(ktmm) != 2 or sorted(m[1] for m in tr if m[0] == "tmm") != ["default:both", "default:hot"]:
                cx.ck.violation("C15:matches-per-string:warning-count", dict(matches=s, limit=L, warnings=[m for m in tr if m[0] == "tmm"]))
            if mode == "continue":
                verd = {m[1]: m[0] for m in tr if m[0] in ("m", "n")}
                if rep0[-1]["rc"] != 0 or verd.get("default:cold") != "m" or verd.get("default:hot") != "m" or verd.get("default:both") != "m" or verd.get("default:filler") != "n":
                    cx.ck.violation("C15:matches-per-string:other-rules-affected", dict(matches=s, limit=L, verdicts=verd, rc=rep0[-1]["rc"]))
                # the same scanner afterwards behaves like a fresh one
                rep1 = cx.batch(["scan target=s0 via=mem data=" + yv.hx(normal), "scanner 1 0", "scan target=s1 via=mem data=" + yv.hx(normal)])
                if isinstance(rep1, Exception) or json.dumps(rep1[0]["t"]) != json.dumps(rep1[2]["t"]):
                    cx.ck.violation("C15:matches-per-string:scanner-not-reusable-after-limit", dict(matches=s, limit=L, reused=None if isinstance(rep1, Exception) else rep1[0]["t"], fresh=None if isinstance(rep1, Exception) else rep1[2]["t"]))
            else:
                act = "A" if mode == "abort" else "E"
                rep2 = cx.batch(setup + ["scan target=s0 via=mem ml=0 data=@9 cb=%d:%s" % (ktmm[0], act), "scan target=s0 via=mem data=" + yv.hx(normal), "scanner 1 0", "scan target=s1 via=mem data=" + yv.hx(normal)])
                if isinstance(rep2, Exception):
                    cx.ck.violation("C15:matches-per-string:crash", dict(matches=s, mode=mode, error=str(rep2))); continue
                want = E["TOO_MANY_MATCHES"]      # capi.rst: any answer other than CONTINUE halts the scan with this error
                if rep2[6]["rc"] != want or len(rep2[6]["t"]) != ktmm[0] + 1:
                    cx.ck.violation("C15:matches-per-string:%s-at-warning" % mode, dict(matches=s, rc=rep2[6]["rc"], expected_rc=want, messages=len(rep2[6]["t"])))
                if json.dumps(rep2[7]["t"]) != json.dumps(rep2[9]["t"]):
                    cx.ck.violation("C15:matches-per-string:scanner-not-reusable-after-limit", dict(matches=s, mode=mode))
    cx.ck.sub("matches-per-string", **{"L=%d" % L: ss})


def timeouts(cx, quick):
    shapes = [("nested-loops", "rule r { condition: for all i in (0..4611686018427387904) : (for all j in (0..4611686018427387904) : (for all k in (0..9) : (for all l in (0..9) : (i + j + k + l >= 0)))) }", b"x" * 16),
              ("module-call-in-loop", 'import "hash" import "math" rule r { condition: for all i in (0..100000000) : (hash.md5(0, filesize) != "" and math.entropy(0, filesize) >= 0.0) }', b"y" * 64),
              ("count-over-matches", 'rule r { strings: $a = "a" condition: for all i in (1..#a) : (@a[i] >= 0) and for all i in (0..100000000) : (#a > i or #a <= i) }', b"a" * 3000),
              ("zero-length-atom-regex", "rule r { strings: $a = /[a-z]{2,}x/ condition: $a }", None),
              ("big-data-cheap-rule", 'rule r { strings: $a = "needle" condition: $a }', None)]
    cap = 300 if quick else 2000
    big = b"ab" * (256 * 1024) if quick else b"ab" * (1024 * 1024)
    total = 0
    for name, rule, data in shapes:
        d = data if data is not None else big
        setup = ["reset", "compiler 0", "add 0 - " + yv.hx(rule), "getrules 0 0", "cdestroy 0", "scanner 0 0", "blob 9 " + yv.hx(d)]
        rep = cx.batch(setup + ["scan target=s0 via=mem ml=0 timeout=100 clock=%d:200000000000 data=@9" % (cap + 1)])
        if isinstance(rep, Exception):
            cx.ck.violation("C15:timeout:%s:crash" % name, dict(error=str(rep))); continue
        if rep[2]["errors"]:
            cx.ck.violation("C15:timeout:%s:shape-does-not-compile" % name, dict(messages=rep[2]["msgs"][:2])); continue
        base = rep[-1]
        npolls = min(base["polls"], cap)
        PROBE = "scan target=%s via=mem timeout=1 clock=2:5000000000 data=" + yv.hx(b"needle aax")
        fresh = cx.batch(["scanner 1 0", PROBE % "s1"])
        if isinstance(fresh, Exception):
            cx.ck.violation("C15:timeout:%s:probe-hang" % name, dict(error=str(fresh))); continue
        fresh_obs = json.dumps([fresh[1]["t"], fresh[1]["rc"], fresh[1]["polls"]])
        if base["polls"] == 0:
            cx.ck.violation("C15:timeout:%s:clock-never-polled" % name, dict(rc=base["rc"])); continue
        if base.get("clk") in (2, 3):       # CLOCK_PROCESS_CPUTIME_ID / CLOCK_THREAD_CPUTIME_ID: not wall time; the process clock also advances with other threads' work
            cx.ck.violation("C15:timeout:deadline-measured-on-a-cpu-time-clock", dict(clock_id=base.get("clk")))
        ks = list(range(2, npolls + 1))            # poll 1 is the stopwatch start itself
        cmds = []
        for k in ks:
            cmds += ["scan target=s0 via=mem ml=0 timeout=1 clock=%d:5000000000 data=@9" % k, PROBE % "s0"]
        rep = cx.batch(cmds)
        if isinstance(rep, Exception):
            cx.ck.violation("C15:timeout:%s:crash" % name, dict(error=str(rep), stderr=getattr(rep, "err", "")[-1500:])); continue
        for i, k in enumerate(ks):
            r, after = rep[2 * i], rep[2 * i + 1]
            total += 1
            if r["rc"] != E["TIMEOUT"] or r["polls"] != k:
                cx.ck.violation("C15:timeout:%s:not-at-the-deadline-poll" % name, dict(deadline_at_poll=k, rc=r["rc"], polls_made=r["polls"])); break
            if any(m[0] in ("m", "n", "fin") for m in r["t"]):
                cx.ck.violation("C15:timeout:%s:messages-after-timeout" % name, dict(deadline_at_poll=k, trace=r["t"][:5])); break
            if json.dumps([after["t"], after["rc"], after["polls"]]) != fresh_obs:
                cx.ck.violation("C15:timeout:%s:scanner-not-reusable-after-timeout" % name, dict(deadline_at_poll=k, reused=after["t"], fresh=json.loads(fresh_obs))); break
        cx.ck.sub("timeouts", **{name: dict(polls_of_untimed_run_capped=npolls, deadlines_enumerated=len(ks), capped=base["polls"] > cap)})
        # liveness against the real clock (thorough): must come back within 1 s + generous slack
        if not quick and data is not None:
            t0 = time.time()
            r = cx.batch(["scan target=s0 via=mem ml=0 timeout=1 data=@9"])
            dt = time.time() - t0
            if isinstance(r, Exception) or r[0]["rc"] != E["TIMEOUT"] or dt > 16:
                r2 = cx.batch(setup + ["scan target=s0 via=mem ml=0 timeout=1 data=@9"])      # re-run alone before reporting
                if isinstance(r2, Exception) or r2[-1]["rc"] != E["TIMEOUT"]:
                    cx.ck.violation("C15:timeout:%s:real-clock-no-timeout" % name, dict(seconds=dt, rc=None if isinstance(r, Exception) else r[0]["rc"]))
    # data arriving in many blocks: the deadline is looked at at least once per block, whatever the block size (a scan fed by an iterator that never ends must stop)
    rep = cx.batch(["reset", "compiler 0", "add 0 - " + yv.hx('rule r { strings: $a = "needle" condition: $a }'), "getrules 0 0", "cdestroy 0", "scanner 0 0"])
    for size in (64, 1024, 4095, 4096, 4097):
        polls = {}
        for nblk in (1, 4, 12):
            r = cx.batch(["scan target=s0 via=blocks ml=0 timeout=100 clock=100000:1 data=%s blocks=%s" % (yv.hx(b"ab" * (size * nblk // 2) + b"a" * ((size * nblk) % 2)), ",".join([str(size)] * nblk))])
            total += 1
            if isinstance(r, Exception) or r[0]["rc"] != 0:
                cx.ck.violation("C15:timeout:blocks:unexpected-result", dict(block_size=size, blocks=nblk, reply=str(r)[:300])); break
            polls[nblk] = r[0]["polls"]
        else:
            if polls[4] - polls[1] < 3 or polls[12] - polls[1] < 11:
                cx.ck.violation("C15:timeout:blocks:deadline-not-checked-once-per-block", dict(block_size=size, polls_by_block_count=polls))
            cx.ck.sub("timeouts", **{"blocks-of-%d" % size: polls})
    cx.n += total
    return total


def match_data_limit(cx, quick):
    """YR_CONFIG_MAX_MATCH_DATA at every setting L in a list, for every kind of string (text, regexp, hex, hex with a small jump, chained hex with two and three
    pieces, chained regexp): the bytes handed to the callback are min(match length, L), and they are the bytes at the match offset"""
    decls = [("text", '$s = "abcdefghij"', 10), ("regex", "$s = /ab[c-x]{6}ij/", 10), ("hex", "$s = { 61 62 63 64 65 66 67 68 69 6a }", 10), ("hex-jump", "$s = { 61 62 63 [4] 68 69 6a }", 10),
             ("chain-2", "$s = { 41 41 41 41 [250-300] 42 42 42 42 }", 268), ("chain-3", "$s = { 41 41 41 41 [250-300] 42 42 42 42 [201-210] 43 43 43 43 }", 473),
             ("chain-regex", "$s = /QQQQ.{250,300}?RRRR/", 268), ("chain-unbounded", "$s = { 51 52 53 54 [300-] 55 56 57 58 }", 408)]
    data = b"..abcdefghij.." + b"AAAA" + b"." * 260 + b"BBBB" + b"." * 201 + b"CCCC" + b".." + b"QQQQ" + b"-" * 260 + b"RRRR" + b".." + b"QRST" + b"+" * 400 + b"UVWX" + b"."
    for (name, decl, mlen) in decls:
        for L in ((0, 1, 16, 267, 268, 269, 512, 4096) if not quick else (0, 16, 268, 4096)):
            rep = cx.batch(["reset", "cfg matchdata %d" % L, "compiler 0", "add 0 - " + yv.hx("rule r { strings: %s condition: $s }" % decl), "getrules 0 0", "cdestroy 0", "blob 7 " + yv.hx(data),
                            "scan target=r0 via=mem ml=2 data=@7", "reset", "cfg matchdata 512"])
            cx.n += 1
            if isinstance(rep, Exception):
                cx.ck.violation("C15:match-data:%s:crash" % name, dict(limit=L, error=str(rep)[:300], stderr=getattr(rep, "err", "")[-1500:])); cx.batch(["cfg matchdata 512"]); continue
            if rep[3]["errors"] or rep[7]["rc"] != 0:
                cx.ck.violation("C15:match-data:harness:case-does-not-run", dict(string=name, limit=L, replies=str(rep[3:8])[:400])); continue
            ms = [x for m in rep[7]["t"] if m[0] == "m" for sid in m[2] for x in sid[1]]
            if not ms:
                cx.ck.violation("C15:match-data:harness:no-match", dict(string=name, limit=L)); continue
            for x in ms:
                off, ln, hexd = x[0], x[1], x[4]
                if ln != mlen or len(hexd) // 2 != min(ln, L) or bytes.fromhex(hexd) != data[off:off + min(ln, L)]:
                    cx.ck.violation("C15:match-data:%s:data-not-clipped-to-the-limit" % name, dict(limit=L, match_length=ln, expected_match_length=mlen, data_bytes=len(hexd) // 2)); break
    cx.ck.sub("match-data-limit", strings=len(decls))


def iterator_stack(cx, quick):
    """every kind of loop iterator (they push 2 or 3 values per step), alone and nested, at EVERY evaluation stack size 1..N, under ASan: outcome is the
    stack-overflow error or the verdict obtained with the default stack; ok/overflow boundary sharp in S; a guard that is one slot short is a heap overflow"""
    kinds = {"range": "for any i in (1..3) : (i == 3)", "enum": "for any i in (1, 2, 3) : (i == 3)", "text-enum": 'for any s in ("a", "b") : (s == "b")',
             "int-array": "for any x in tests.integer_array : (x == 1)", "string-array": 'for any s in tests.string_array : (s == "foo")',
             "struct-array": "for any e in tests.struct_array : (e.i == 1)", "int-dict": "for any k, v in tests.integer_dict : (v == 1)",
             "string-dict": 'for any k, v in tests.string_dict : (v == "foo")', "struct-dict": "for any k, v in tests.struct_dict : (v.i == 1)",
             "empty-dict": "for any k, v in tests.empty_struct_dict : (v.unused == 1)", "empty-dict-all": "for all k, v in tests.empty_struct_dict : (v.unused == 1)",
             "string-set": "for any of them : ($)", "of": "any of them"}
    outers = {"range": "for any o in (1..2) : (%s)", "int-array": "for any o in tests.integer_array : (%s)", "int-dict": "for any ok, ov in tests.integer_dict : (%s)",
              "string-set": "for any of them : (%s)"}
    shapes = dict(kinds)
    for on, ot in outers.items():
        for kn, kt in kinds.items():
            if kn in ("string-set",) and on == "string-set": continue
            shapes["%s>%s" % (on, kn)] = ot % kt.replace("($)", "($ at 0)")
    N = 28 if quick else 72
    for name, cond in shapes.items():
        text = 'import "tests" rule r { strings: $_s = "zz" condition: %s }' % cond
        pre = ["reset", "compiler 0", "add 0 - " + yv.hx(text), "getrules 0 0", "cdestroy 0"]
        ref = cx.batch(["cfg stack 16384"] + pre + ["scan target=r0 via=mem ml=0 data=" + yv.hx(b"zz"), "reset"])
        if isinstance(ref, Exception) or ref[3]["errors"] or ref[-2]["rc"] != 0:
            cx.ck.violation("C15:iterator-stack:harness:reference-run-failed", dict(shape=name, condition=cond, reply=str(ref)[:500])); continue
        want = [m[0] for m in ref[-2]["t"] if m[0] in ("m", "n")]
        outcome = {}
        for S in range(1, N + 1):
            rep = cx.batch(["cfg stack %d" % S] + pre + ["scanner 0 0", "scan target=s0 via=mem ml=0 data=" + yv.hx(b"zz"), "scan target=s0 via=mem ml=0 data=" + yv.hx(b"zz"), "reset", "cfg stack 16384"] + CANARY)
            cx.n += 1
            if isinstance(rep, Exception):
                err = getattr(rep, "err", "")
                kind = ("asan:" + err.split("AddressSanitizer: ")[1].split()[0]) if "AddressSanitizer: " in err else "died"
                cx.ck.violation("C15:iterator-stack:%s:crash:%s" % (name.split(">")[-1], kind), dict(shape=name, stack=S, condition=cond, stderr=err[-2500:])); outcome[S] = "crash"
                cx.batch(["cfg stack 16384"]); continue
            r, r2 = rep[-len(CANARY) - 4], rep[-len(CANARY) - 3]
            if r["rc"] == E["STACK"]:
                outcome[S] = "overflow"
            elif r["rc"] == 0:
                got = [m[0] for m in r["t"] if m[0] in ("m", "n")]
                outcome[S] = "ok"
                if got != want:
                    cx.ck.violation("C15:iterator-stack:%s:verdict-differs-from-default-stack" % name.split(">")[-1], dict(shape=name, stack=S, condition=cond, got=got, want=want))
            else:
                outcome[S] = "rc=%d" % r["rc"]
                cx.ck.violation("C15:iterator-stack:%s:unexpected-rc" % name.split(">")[-1], dict(shape=name, stack=S, rc=r["rc"]))
            if (r2["rc"], [m[0] for m in r2["t"]]) != (r["rc"], [m[0] for m in r["t"]]):
                cx.ck.violation("C15:iterator-stack:%s:second-scan-differs" % name.split(">")[-1], dict(shape=name, stack=S, first=r, second=r2))
            if not canary_ok(rep[-len(CANARY):]):
                cx.ck.violation("C15:iterator-stack:%s:library-unusable-afterwards" % name.split(">")[-1], dict(shape=name, stack=S))
        oks = [S for S, o in outcome.items() if o == "ok"]; ovs = [S for S, o in outcome.items() if o == "overflow"]
        if oks and ovs and min(oks) < max(ovs):
            cx.ck.violation("C15:iterator-stack:%s:boundary-not-monotonic" % name.split(">")[-1], dict(shape=name, ok=oks[:5], overflow=ovs[-5:]))
        if not oks:
            cx.ck.violation("C15:iterator-stack:harness:never-fits", dict(shape=name, outcomes=sorted(outcome.items())[-4:]))
        cx.ck.sub("iterator-stack", **{name: "overflow<=%s ok>=%s" % (max(ovs) if ovs else None, min(oks) if oks else None)})


def regex_code_size(cx, quick):
    """the 16-bit jump / split offsets of the regex byte code: for every quantifier / alternation form, every body size at ONE-byte granularity in a window
    around the limit (k character classes + j zero-width \\B; the largest accepted k is found first): the compile either fails with 'too large' or the regex still
    means what it says (five probe buffers); the accept / reject boundary is sharp"""
    forms = [("star", "abcd(%s)*e", 0), ("star-lazy", "abcd(%s)*?e", 0), ("plus", "abcd(%s)+e", 1), ("opt", "abcd(%s)?e", 0), ("alt-right", "abcd(x|%s)e", 1), ("alt-left", "abcd(%s|x)e", 1)]
    def compile_only(rule):
        rep = cx.batch(["reset", "compiler 0", "add 0 - " + yv.hx(rule), "cdestroy 0", "reset"])
        return None if isinstance(rep, Exception) else rep[2]
    for name, fmt, need in forms:
        # j one-byte opcodes that consume nothing (\\B between two word characters), so that the match stays inside the engine's 1024-byte match window
        mk = lambda k, j: ("rule r { strings: $a = /%s/ condition: $a }" % (fmt % ("[a-c]\\B" * j + "[a-c]" * (k - j))), b"b" * k)
        lo, hi = 1, 1400                       # largest k (classes only) that still compiles
        while lo < hi:
            mid = (lo + hi + 1) // 2
            a_ = compile_only(mk(mid, 0)[0])
            if a_ is not None and a_["errors"] == 0: lo = mid
            else: hi = mid - 1
        kmax = lo
        outcome = {}
        for k, j in [(kmax - 1, j) for j in range(20, 80)] if not quick else [(kmax - 1, j) for j in range(28, 76)]:
            rule, inst = mk(k, j)
            probes = [b"abcde", b"abcdX", b"abcd" + inst + b"e", b"abcd" + inst + b"X", b"abcdxe"]
            rep = cx.batch(["reset", "compiler 0", "add 0 - " + yv.hx(rule), "getrules 0 0", "cdestroy 0"] + ["scan target=r0 via=mem data=" + yv.hx(p_) for p_ in probes] + ["reset"] + CANARY)
            cx.n += 1
            T = (k, j)
            if isinstance(rep, Exception):
                err = getattr(rep, "err", "")
                cx.ck.violation("C15:regex-code-size:%s:crash" % name, dict(classes=k, dots=j, error=str(rep)[:300], stderr=err[-2000:])); outcome[T] = "crash"; continue
            add = rep[2]
            if add["errors"]:
                outcome[T] = "rejected:%d" % add["last"]
                if add["last"] not in (E["RE_LARGE"], E["RE_COMPLEX"]):
                    cx.ck.violation("C15:regex-code-size:%s:unexpected-error" % name, dict(classes=k, dots=j, reply=add))
            else:
                outcome[T] = "ok"
                exp = [need == 0, False, True, False, name.startswith("alt")]
                got = []
                for r in rep[5:5 + len(probes)]:
                    got.append(any(m[0] == "m" for m in r["t"]) if r["rc"] == 0 else "rc=%d" % r["rc"])
                if got != exp:
                    cx.ck.violation("C15:regex-code-size:%s:accepted-regex-does-not-mean-what-it-says" % name, dict(classes=k, dots=j, probes=["abcde", "abcdX", "abcd<body>e", "abcd<body>X", "abcdxe"], expected=exp, observed=got))
            if not canary_ok(rep[-len(CANARY):]):
                cx.ck.violation("C15:regex-code-size:%s:library-unusable-afterwards" % name, dict(classes=k, dots=j))
        oks = [T[1] for T, o in outcome.items() if o == "ok"]; rej = [T[1] for T, o in outcome.items() if o.startswith("rejected")]
        if oks and rej and max(oks) > min(rej):
            cx.ck.violation("C15:regex-code-size:%s:boundary-not-monotonic" % name, dict(accepted=sorted(oks)[-4:], rejected=sorted(rej)[:4]))
        if not rej or not oks:
            cx.ck.violation("C15:regex-code-size:harness:window-misses-the-limit", dict(form=name, kmax=kmax, outcomes=sorted(outcome.items())[:3] + sorted(outcome.items())[-3:]))
        cx.ck.sub("regex-code-size", **{name: "classes=%d: extra one-byte opcodes accepted<=%s rejected>=%s" % (kmax - 1, max(oks) if oks else None, min(rej) if rej else None)})


def main():
    ck = yv.Check("C15", "exploration")
    quick = ck.tier == "quick"
    total = 0
    for variant in ("plain", "small", "asansmall"):        # asansmall: the scaled limits once more under ASan/UBSan, so that a guard that is one element short is a report
        cx = Ctx(ck, variant)
        if variant == "plain":
            limits_compile(cx, quick)
            stack_limits(cx, quick)
        regex_limits(cx, quick)
        match_limits(cx, quick)
        if variant == "plain":
            timeouts(cx, quick)
        total += cx.n
        yv.drop_worker(variant)
    cx = Ctx(ck, "asan")
    match_data_limit(cx, quick)
    if not quick: stack_limits(cx, True)
    regex_code_size(cx, quick)
    iterator_stack(cx, quick)
    total += cx.n
    yv.drop_worker("asan")
    ck.cov["evaluations"] = total
    ck.cov["distinct_nontrivial"] = total
    ck.sample(dict(limit="strings-per-rule", case="L=2 strings=3 -> ERROR_TOO_MANY_STRINGS, then canary compile+scan"))
    ck.sample(dict(limit="timeout", case="nested loops, deadline passes at poll k for every k in 1..cap -> rc 26 at poll k, scanner reusable"))
    ck.cov["rule"] = ("a case = one limit driven at one size (L-1, L, L+1, 2L, 10L for each configured L; every depth up to S+5 for each stack size S; every loop-iterator kind alone and nested at every stack size 1..N under ASan; every regex quantifier / alternation form at every body code size in a window around the 16-bit offset limit; every deadline poll k for "
                      "each timeout shape), followed by the usability checks; every case is distinct; boundaries are required to be sharp and monotonic")
    ck.assumptions += ["the build with scaled constants is the same source with smaller #ifndef-guarded limits", "stack demand of an expression shape is not predicted: a sharp ok/overflow boundary is required instead",
                       "timeouts use the harness-owned clock (1 microsecond per poll, jump of 5 s at poll k)"]
    ck.finish()


if __name__ == "__main__":
    main()
