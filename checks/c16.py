#!/usr/bin/env python3
"""C16 - allocation failure anywhere is reported, never suffered.
Fault enumeration: for every scenario (a complete create-use-destroy script over one API group) a dry run counts the N
allocations made inside libyara calls (link-time wrapped malloc/calloc/realloc/strdup/strndup); then for EVERY k in 1..N the
k-th allocation fails (a) alone and (b) together with all later ones.  Oracle per run: no crash/sanitizer report; every API
step either reports insufficient-memory / a compile error or completes with the fault-free observation; everything can be
destroyed; live allocations return to the baseline; a canary compile+scan afterwards behaves normally."""
import json, os, subprocess, sys
sys.path.insert(0, os.path.join(os.path.dirname(os.path.abspath(__file__)), "..", "lib"))
sys.path.insert(0, os.path.dirname(os.path.abspath(__file__)))
import yv, c08

VAR = "asan"
NOMEM = 1
CANARY = ["compiler 3", "add 3 - " + yv.hx('rule canary { strings: $a = "abcd" condition: $a }'), "getrules 3 7", "cdestroy 3",
          "scan target=r7 via=mem data=" + yv.hx(b"xxabcdxx"), "rdestroy 7"]


def comp(parts):
    srcs, ext = c08.rule_text([(p, "r%d_%s" % (i, p["name"])) for i, p in enumerate(parts)])
    return (["compiler 0"] + ["defc 0 %s %s %s" % (n, t, yv.hx(v) if t == "s" else v) for (n, t, v) in ext] +
            ["add 0 %s %s" % (ns, yv.hx(t)) for ns, t in srcs] + ["getrules 0 0", "cdestroy 0"])


def scenarios(quick):
    K = {k["name"]: k for k in c08.constructs()}
    bufs = c08.buffers()
    S = []
    def add(name, setup, body, teardown=("reset",)):
        S.append(dict(name=name, setup=list(setup), body=list(body), teardown=list(teardown)))
    fams = [("text", ["text", "nocase", "wide"]), ("xor-base64", ["xor", "base64", "base64wide"]), ("hex", ["hexwild", "hexjump", "hexalt"]), ("chains", ["hexchain", "hexchain3"]),
            ("regex", ["regex", "regexwide", "regexchain"]), ("conditions", ["forrange", "forof", "ofthem", "atin", "readers", "strset", "matches"]),
            ("modules", ["pe", "math", "hash", "tests"]), ("externals", ["extint", "extfloat", "extbool", "extstring"]), ("meta-tags-ns", ["tags", "metas", "ns2", "global"]),
            ("rulerefs", ["privaterule", "ruleset", "anon"])]
    if quick:
        fams = [fams[0], fams[4], fams[6], fams[7]]
    for fname, names in fams:
        add("compile:" + fname, [], comp([K[n] for n in names]) + ["rdestroy 0"])
    strs = [K[n] for n in ("text", "regex", "hexchain", "extstring", "nocase")]
    add("save-load", comp(strs), ["save 0 0", "load 1 0 chunk=7", "info 1", "scan target=r1 via=mem data=" + yv.hx(bufs[8]), "rdestroy 1"])
    add("scanner-externals", comp([K[n] for n in ("extint", "extfloat", "extbool", "extstring")]),
        ["defr 0 xstr s " + yv.hx(b"a-mid-q"), "scanner 0 0", "defs 0 xi i 9", "defs 0 xstr s " + yv.hx(b"zz"), "defs 0 xf f 2.5", "scan target=s0 via=mem data=" + yv.hx(bufs[1]), "sdestroy 0"])
    add("scan:strings", comp(strs), ["scanner 0 0", "scan target=s0 via=mem data=" + yv.hx(bufs[7]), "scan target=s0 via=mem data=" + yv.hx(bufs[8]), "sdestroy 0"])
    add("scan:rules-level", comp(strs), ["scan target=r0 via=mem data=" + yv.hx(bufs[7]), "scan target=r0 via=file data=" + yv.hx(bufs[8]), "scan target=r0 via=blocks blocks=5,9 data=" + yv.hx(bufs[7][:14]), "stats 0"])
    modrules = {"pe": 'import "pe" rule m { condition: pe.number_of_sections >= 0 and pe.imphash() != "x" and pe.is_pe }',
                "elf": 'import "elf" rule m { condition: elf.number_of_sections >= 0 or elf.type == 2 }',
                "dotnet": 'import "dotnet" rule m { condition: dotnet.is_dotnet or dotnet.number_of_streams >= 0 }',
                "macho": 'import "macho" rule m { condition: macho.magic == 0xfeedface or macho.ncmds >= 0 }',
                "dex": 'import "dex" rule m { condition: dex.header.magic == "dex\\n035\\x00" or dex.number_of_fields >= 0 }',
                "hashmath": 'import "hash" import "math" rule m { condition: hash.md5(0, filesize) != "" and hash.sha256(0, 8) != "" and math.entropy(0, filesize) >= 0.0 and hash.crc32(0, 4) >= 0 }'}
    seeds = {"pe": yv.blob("PE32_FILE"), "elf": yv.blob("ELF32_FILE"), "dotnet": yv.repo_file("tests/data/bad_dotnet_pe")[:4096], "macho": yv.blob("MACHO_X86_FILE"),
             "dex": yv.blob("DEX_FILE"), "hashmath": bufs[7]}
    for m in (("pe", "elf", "hashmath") if quick else modrules):
        add("scan:module:" + m, ["compiler 0", "add 0 - " + yv.hx(modrules[m]), "getrules 0 0", "cdestroy 0", "blob 5 " + yv.hx(seeds[m])],
            ["scanner 0 0", "scan target=s0 via=mem data=@5", "sdestroy 0"])
    # growth inside a scan: the matches notebook needs a second page (thousands of short matches), the iterators notebook needs one (> 512 loop starts in one
    # evaluation), the per-scanner regex fiber pool grows, an object array grows (tests.integer_array is preset; math/hash module strings are allocated)
    big = ["compiler 0", "add 0 - " + yv.hx('rule many { strings: $a = "a" $b = /b[bc]/ condition: #a > 10 or $b } '
                                             'rule loops { condition: for all i in (0..700) : (for any j in (0..1) : (j == 1)) } '), "getrules 0 0", "cdestroy 0", "blob 5 " + yv.hx(b"a" * 12500 + b"bbbcbc" * 40)]
    add("scan:growth", big, ["scanner 0 0", "scan target=s0 via=mem ml=0 data=@5", "scan target=s0 via=mem ml=0 data=@5", "sdestroy 0"])
    # the same growth reached from the other verification engines: a hex string whose atom lies AFTER a jump (prefix verified backwards by the fast hex engine, which reports
    # every candidate through the match callback), a regexp verified backwards, a chained string - each with enough matches for a second notebook page
    # (one string per scenario: with two strings matching at every occurrence the page boundary would always fall to the same one)
    for nm_, src_ in (("hex-atom-after-jump", 'rule fastback { strings: $h = { 41 [1-2] 62 63 64 65 } condition: #h > 10 }'), ("regexp", 'rule reback { strings: $r = /A.{1,2}?bcde/ condition: #r > 10 }'),
                      ("hex-alternatives", 'rule altback { strings: $h = { 41 ( 78 | 78 79 ) 62 63 64 65 } condition: #h > 10 }')):
        big2 = ["compiler 0", "add 0 - " + yv.hx(src_), "getrules 0 0", "cdestroy 0", "blob 5 " + yv.hx(b"AxbcdeAxybcde" * 6500)]      # 13 000 matches: the first notebook page holds about 7 000
        add("scan:growth:backward-verification:" + nm_, big2, ["scanner 0 0", "scan target=s0 via=mem ml=0 data=@5", "scan target=s0 via=mem ml=0 data=@5", "sdestroy 0"])
    # more API groups: include callback (file name stack, nested lexer buffers), atom quality table, add from bytes / file, rules-level defines + scan from fd
    incs = ["incclear", "incfile inc_a.yar " + yv.hx('include "inc_b.yar"\nrule ia { strings: $a = "ia" condition: $a }'), "incfile inc_b.yar " + yv.hx('rule ib { condition: true }')]
    add("compile:include", incs, ["compiler 0 inc=1", "add 0 - " + yv.hx('include "inc_a.yar"\nrule top { condition: ia and ib }'), "getrules 0 0", "cdestroy 0", "rdestroy 0"])
    add("compile:atom-table", [], ["compiler 0", "atomq 0 " + (b"abcd\0" + b"efgh\x05").hex() + " 1", "add 0 - " + yv.hx('rule q { strings: $a = "abcdefgh" $b = "xxabcdyy" condition: $a or $b }'),
                                   "getrules 0 0", "cdestroy 0", "scan target=r0 via=mem data=" + yv.hx(b"..abcdefgh.."), "rdestroy 0"])
    add("compile:bytes-file", [], ["compiler 0", "add 0 - " + yv.hx('rule b1 { strings: $a = "bytes" condition: $a }') + " mode=bytes", "add 0 n2 " + yv.hx('rule f1 { condition: filesize > 3 }') + " mode=file",
                                   "getrules 0 0", "cdestroy 0", "rdestroy 0"])
    # a scan suspended by a not-ready block and never resumed, then a NEW scan on the same scanner while allocations fail (the leftovers of the abandoned scan are
    # discarded at the start of the new one); and the resumed variant
    add("scan:after-abandoned-scan", comp(strs) + ["scanner 0 0", "scan target=s0 via=blocks blocks=5,9 nr=0.1.1 abandon=0 data=" + yv.hx(bufs[7][:14])],
        ["scan target=s0 via=mem data=" + yv.hx(bufs[8]), "scan target=s0 via=mem data=" + yv.hx(bufs[7]), "sdestroy 0"])
    add("scan:suspended-and-resumed", comp(strs) + ["scanner 0 0"], ["scan target=s0 via=blocks blocks=5,9 nr=0.1.1;0.2.1 data=" + yv.hx(bufs[7][:14]), "scan target=s0 via=mem data=" + yv.hx(bufs[8]), "sdestroy 0"])
    # several candidates on the automaton state that is flushed after the LAST byte of a block (strings sharing an atom / one atom a suffix of another): an
    # allocation failure while verifying any of them must surface (or the results must be complete)
    eob_rules = ['rule first { strings: $a = /x[0-9]abcd/ condition: $a }', 'rule second { strings: $b = /[0-9]a?bcd/ condition: $b }',
                 'rule third { strings: $c = /7abc[d-e]/ $d = "abcd" condition: $c and $d }', 'rule fourth { strings: $e = /[a-z]7a+bcd/ condition: $e }', 'rule fifth { strings: $f = "bcd" condition: $f }']
    for rot in range(len(eob_rules)):         # the candidate whose verification allocates (the first regexp run of a scanner) takes every position of the state's match list
        order = eob_rules[rot:] + eob_rules[:rot]
        eob = ["compiler 0", "add 0 - " + yv.hx(" ".join(order)), "getrules 0 0", "cdestroy 0"]
        add("scan:end-of-block-candidates:%d" % rot, eob, ["scanner 0 0", "scan target=s0 via=mem data=" + yv.hx(b"q" * 90 + b"x7abcd"), "sdestroy 0"])
    # the iterators notebook takes a new page in the middle of an evaluation (> 512 loop starts): the loop start that needs the page is of EVERY iterator kind in turn
    # (each kind has its own opcode and its own error handling)
    inner = {"int-enum": "for any j in (2,4,6) : (i + j > 6)", "int-range": "for any j in (2..4) : (i + j > 4)", "string-set": "for any of ($a, $b) : ($)",
             "text-set": 'for any t in ("a", "bb") : (t == "bb")', "array": "for any x in tests.integer_array : (x == 1)", "dict": 'for any k, v in tests.string_dict : (k == "foo")',
             "of-rule-set": "any of (it_*)"}
    for kind, body in inner.items():
        src = 'import "tests" rule it_a { condition: true } rule loops { strings: $a = "aa" %scondition: $a and for all i in (1..600) : (%s) }' % ('$b = "bc" ' if "$b" in body else "", body)
        add("scan:iterator-page:" + kind, ["compiler 0", "add 0 - " + yv.hx(src), "getrules 0 0", "cdestroy 0"], ["scanner 0 0", "scan target=s0 via=mem data=" + yv.hx(b"..aa..bc.."), "scan target=s0 via=mem data=" + yv.hx(b"..aa..bc.."), "sdestroy 0"])
    add("init-fini", [], ["fini", "init"])
    return S


def is_ok_step(cmd, r, ref):
    """None if the reply is an acceptable outcome for this step; else description"""
    c = cmd.split()[0]
    if "err" in r and "rc" not in r: return "harness:" + str(r)
    if c == "add":
        if r["errors"] == -2: return None
        return None          # errors > 0 is "returns an error"; whether the callback was invoked is C07's concern
    rc = r.get("rc")
    if rc in (0, NOMEM, -2) or ("rc" not in r and "err" not in r): return None
    return "unexpected-rc=%s" % rc


def one_run(w, sc, k, mode, ref):
    cmds = ["reset", "live"] + sc["setup"] + ["live", "failat %d %d" % (k, mode)] + sc["body"] + ["live", "failsite", "failat 0 0"] + sc["teardown"] + ["live"] + CANARY + ["live"]
    rep = w.batch(cmds)
    iA = 2 + len(sc["setup"]); ib = iA + 2 + len(sc["body"]); it = ib + 3 + len(sc["teardown"])
    body = rep[iA + 2:ib]
    hits, count, bt = rep[ib]["hits"], rep[ib]["count"], rep[ib + 1]["bt"]
    problems = []
    failed = False
    for cmd, r, rr in zip(sc["body"], body, ref or body):
        bad = is_ok_step(cmd, r, rr)
        if bad: problems.append(("bad-outcome:" + bad, cmd.split()[0]))
        if (cmd.split()[0] == "add" and r.get("errors") != 0) or r.get("rc") not in (0, None): failed = True
        if ref is not None and not failed and hits:
            # the step reports success although an allocation failed before or inside it: its observation must equal the fault-free one
            if json.dumps(strip(r)) != json.dumps(strip(rr)):
                problems.append(("success-with-wrong-result", cmd.split()[0])); failed = True
    if rep[it]["live"] != rep[1]["live"]:           # judged by this run's own delta: an earlier leak in the same worker must not be blamed on later runs
        problems.append(("leak", "%+d" % (rep[it]["live"] - rep[1]["live"])))
    can_add, can_scan = rep[it + 2], rep[it + 5]
    if can_add.get("errors") != 0 or can_scan.get("rc") != 0 or [m[0] for m in can_scan.get("t", [])] != ["m", "fin"] or rep[-1]["live"] != rep[it]["live"]:
        problems.append(("canary-misbehaves", ""))
    setup_failed = [c.split()[0] for c, r in zip(sc["setup"] + sc["body"], rep[2:iA] + body) if (c.split()[0] == "add" and r.get("errors") != 0) or r.get("rc") == -2 or "err" in r]
    return dict(hits=hits, count=count, bt=bt, problems=problems, body=body, setup_failed=setup_failed)


def strip(r):
    r = dict(r); r.pop("polls", None); r.pop("hash", None)
    return r


_sym = {}
def symbolize(exe, bt):
    key = tuple(bt)
    if key in _sym: return _sym[key]
    out = subprocess.run(["llvm-symbolizer", "-e", exe, "--functions=short"] + bt, stdout=subprocess.PIPE).stdout.decode().split("\n\n")
    frames = []
    for blk in out:
        ls = blk.strip().splitlines()
        if len(ls) >= 2: frames.append((ls[0], ls[1].rsplit("/", 1)[-1]))
    # drop the harness frames and libyara's allocation wrappers
    fr = [(f, l) for (f, l) in frames if not l.startswith(("yvcommon.c", "mem.c")) and f != "??"]
    site = "<-".join(f for f, l in fr[:3]) or "unknown"
    _sym[key] = (site, fr[:6])
    return _sym[key]


def run_chunk(arg):
    sc, ref, ks, mode = arg
    def fresh():
        w = yv.get_worker(VAR)
        if not hasattr(w, "_c16_base"):
            w.batch(CANARY + ["reset"]); w._c16_base = w.cmd("live")["live"]       # after warm-up
        return w
    w = fresh()
    out = []
    for k in ks:
        try:
            r = one_run(w, sc, k, mode, ref)
            site = symbolize(w.exe, r["bt"]) if r["bt"] else ("none", [])
            out.append((k, mode, r["hits"], r["problems"], site, None))
        except (yv.WorkerDied, yv.WorkerHang) as e:
            err = getattr(e, "err", "")
            yv.drop_worker(VAR); w = fresh()
            kind = "hang" if isinstance(e, yv.WorkerHang) else ("asan:" + err.split("AddressSanitizer: ")[1].split()[0]) if "AddressSanitizer: " in err else "assert" if "Assertion" in err else "ubsan" if "runtime error" in err else "signal"
            frame = ""
            for l in err.splitlines():
                if "/libyara/" in l and " in " in l:
                    frame = l.split(" in ")[1].split(" ")[0]; break
            out.append((k, mode, 1, [("crash:" + kind, (e.cmd.split() or ["?"])[0] + "@" + (frame or "?"))], ("?", []), err[-2500:]))
    return sc["name"], out


def main():
    ck = yv.Check("C16", "fault_enumeration")
    quick = ck.tier == "quick"
    S = scenarios(quick)
    w = yv.get_worker(VAR)
    w.batch(CANARY + ["reset"]); w._c16_base = w.cmd("live")["live"]
    jobs = []
    table = []
    for sc in S:
        r = one_run(w, sc, 10 ** 9, 0, None)       # dry run: counts N and yields the fault-free observation
        if r["problems"]:
            ck.violation("C16:dry-run-problem:" + sc["name"], dict(problems=r["problems"])); continue
        N = r["count"]
        if (N == 0 and sc["name"] != "init-fini") or r["setup_failed"]:
            ck.violation("C16:harness:scenario-does-not-run:" + sc["name"], dict(allocations=N, setup_failed=r["setup_failed"])); continue
        table.append(dict(scenario=sc["name"], allocations=N))
        ks = list(range(1, N + 1))
        for mode in (0, 1):
            for ch in yv.chunked(ks, 40):
                jobs.append((sc, r["body"], ch, mode))
    yv.drop_worker(VAR)
    runs = 0; tolerated = 0; reported = 0
    for (name, res) in yv.pmap(run_chunk, jobs, ck, prebuild=(VAR,)):
        for (k, mode, hits, problems, site, err) in res:
            runs += 1
            ck.cov["evaluations"] += 1
            if not problems:
                reported += 1
                if runs % 2503 == 0: ck.sample(dict(scenario=name, failing_allocation=k, persistent=bool(mode), allocation_site=site[0], outcome="handled"))
                continue
            for (what, where) in problems:
                if what.startswith("crash"):
                    sig = "C16:%s:%s" % (what, where)                 # api step @ crashing libyara frame
                else:
                    sig = "C16:%s:alloc-site=%s" % (what, site[0])    # the allocation whose failure is mishandled
                ck.violation(sig, dict(scenario=name, failing_allocation_index=k, mode="this one and all later" if mode else "only this one", problem=what, detail=where,
                                       allocation_site=site[0], frames=site[1], stderr=err))
    ck.cov["distinct_nontrivial"] = runs
    ck.cov["scenarios"] = table
    ck.cov["rule"] = ("a case = (scenario, k, mode): the k-th allocation of the scenario fails (mode a: only it, mode b: it and all later); all k in 1..N for all %d scenarios; "
                      "N measured by a dry run; every case is a distinct fault position" % len(S))
    ck.assumptions += ["only allocations made by libyara / flex / bison objects are intercepted (link-time --wrap); libcrypto's own allocations are not"]
    ck.finish()


if __name__ == "__main__":
    main()
