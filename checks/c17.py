#!/usr/bin/env python3
"""C17 - incomplete or damaged compiled-rule files are rejected, never half-loaded.
Crash points: for each saved image F of a list of rule sets, yr_rules_load_stream / yr_rules_load of EVERY prefix F[0..n)
(every byte for small files; header + buffer table + every buffer boundary +-2 + relocation region + a stride for the large one).
Field corruptions: every header / buffer-table field x a list of boundary values.
Oracle: the call fails (and leaks nothing), or - if it reports success - the loaded rules behave exactly like the intact ones
(info + traces on a buffer set, under ASan; a crash of the worker is a violation)."""
import json, os, struct, sys
sys.path.insert(0, os.path.join(os.path.dirname(os.path.abspath(__file__)), "..", "lib"))
sys.path.insert(0, os.path.dirname(os.path.abspath(__file__)))
import yv, c08

VAR = "asan"


def rule_sets():
    K = {k["name"]: k for k in c08.constructs()}
    sets = [("minimal", [dict(name="min", text="rule %s { condition: true }", imports=(), ext=(), ns=None)]),
            ("text", [K["text"]]), ("strings", [K["nocase"], K["hexjump"], K["regex"], K["base64"]]), ("chains", [K["hexchain"], K["regexchain"]]),
            ("externals", [K["extint"], K["extfloat"], K["extbool"], K["extstring"], K["matches"]]), ("namespaces", [K["text"], K["ns2"], K["global"]]),
            ("imports", [K["pe"], K["math"], K["hash"], K["tests"]]), ("metas", [K["tags"], K["metas"], K["privaterule"]])]
    big = [dict(name="big%d" % i, text='rule %%s { strings: $a = "needle%04d" $b = { 6e 65 65 [1-2] %02x %02x } condition: $a or $b }' % (i, i & 0xff, (i * 7) & 0xff), imports=(), ext=(), ns=None) for i in range(200)]
    sets.append(("large", big))
    return sets


def layout(img):
    nb = img[5]
    tab = [struct.unpack_from("<QI", img, 6 + 12 * i) for i in range(nb)]
    pos = 6 + 12 * nb
    regions = [("header", 0, 6), ("buffer-table", 6, pos)]
    for i, (off, size) in enumerate(tab):
        if size:
            regions.append(("buffer-body", pos, pos + size)); pos += size
    regions.append(("relocations", pos, len(img)))
    return nb, tab, regions


def region_of(regions, p):
    for name, a, b in regions:
        if a <= p < b: return name
    return "end"


def setup_cmds(srcs, ext):
    return (["reset", "compiler 0"] + ["defc 0 %s %s %s" % (n, t, yv.hx(v) if t == "s" else v) for (n, t, v) in ext] +
            ["add 0 %s %s" % (ns, yv.hx(t)) for ns, t in srcs] + ["getrules 0 0", "cdestroy 0", "save 0 0"])


def run_chunk(arg):
    label, srcs, ext, ref, items = arg
    bufs = c08.buffers()[:8]
    def fresh():
        w = yv.get_worker(VAR)
        w.batch(setup_cmds(srcs, ext) + ["rdestroy 0"])
        return w
    w = fresh()
    out = []
    for it in items:
        kind = it[0]
        if kind == "prefix":
            _, p, how, region = it
            cmds = ["live", "load 1 0 prefix=%d %s" % (p, how), "live"]
            what = "truncation"; where = "region=%s" % region
        else:
            _, off, newhex, field, valname = it
            cmds = ["blobcopy 0 2", "blobpatch 2 %d %s" % (off, newhex), "live", "load 1 2", "live"]
            what = "corruption"; where = "field=%s" % field
        try:
            rep = w.batch(cmds)
            ld = rep[-2]
            if ld["rc"] != 0:
                if rep[-1]["live"] != rep[-3]["live"]:
                    out.append((it, "C17:leak-on-rejection:%s:%s" % (what, where if what == "truncation" else "field=" + field.split("[")[0]), dict(rc=ld["rc"], live_before=rep[-3]["live"], live_after=rep[-1]["live"])))
                else:
                    out.append((it, None, "rejected"))
                continue
            r2 = w.batch(["info 1"] + c08.scan_all("r1", bufs) + ["rdestroy 1"])
            if r2[0] != ref["info"] or c08.obs(r2[1:-1]) != ref["obs"]:
                out.append((it, "C17:%s-accepted:%s:behaves-differently" % (what, where if what == "truncation" else "field=" + field.split("[")[0]), dict(loaded_info=r2[0])))
            elif what == "corruption" and field in ("magic", "version", "num_buffers"):
                # header fields have exactly one legal value for a given image
                out.append((it, "C17:corruption-accepted:field=%s:header-inconsistent-but-loaded" % field, dict(field=field, value=valname)))
            elif what == "corruption" and field.startswith("offset"):
                # reference model of the table: every buffer starts where the previous one ends (first one right after the table), so ANY
                # other value of an offset field is an inconsistent table and must be rejected, whatever the loaded rules do afterwards
                out.append((it, "C17:corruption-accepted:field=offset:table-inconsistent-but-loaded", dict(field=field, value=valname)))
            else:
                out.append((it, None, "accepted-equivalent:" + (where if what == "truncation" else "field=" + field.split("[")[0])))
        except (yv.WorkerDied, yv.WorkerHang) as e:
            err = getattr(e, "err", "")
            yv.drop_worker(VAR); w = fresh()
            stage = (e.cmd.split() or ["?"])[0]
            stage = "during-load" if stage == "load" else "when-used"
            out.append((it, "C17:%s-accepted:%s:crash-%s" % (what, where if what == "truncation" else "field=" + field.split("[")[0], stage) if stage == "when-used"
                        else "C17:%s:%s:crash-during-load" % (what, where if what == "truncation" else "field=" + field.split("[")[0]),
                        dict(error=str(e), stderr=err[-2500:])))
    yv.drop_worker(VAR)
    return label, out


def main():
    ck = yv.Check("C17", "fault_enumeration")
    quick = ck.tier == "quick"
    w = yv.get_worker(VAR)
    bufs = c08.buffers()[:8]
    jobs = []
    cover = []
    for label, parts in rule_sets():
        srcs, ext = c08.rule_text([(p, "r%d_%s" % (i, p["name"])) for i, p in enumerate(parts)])
        rep = w.batch(setup_cmds(srcs, ext) + ["blobget 0", "info 0"] + c08.scan_all("r0", bufs))
        img = bytes.fromhex(rep[-len(bufs) - 2]["hex"])
        ref = dict(info=rep[-len(bufs) - 1], obs=c08.obs(rep[-len(bufs):]))
        nb, tab, regions = layout(img)
        n = len(img)
        if n <= (20000 if quick else 70000) and (not quick or len(cover) < 3):
            cuts = list(range(n))
        elif quick and n <= 20000:
            # quick tier: header, table, every boundary +-2 and the whole relocation region at every byte; buffer bodies every 5th byte
            cuts = set(range(0, regions[1][2] + 8))
            for name, a, b in regions:
                cuts.update(range(max(0, a - 2), min(n, a + 3))); cuts.update(range(max(0, b - 2), min(n, b + 3)))
                cuts.update(range(a, b, 1 if name == "relocations" and len(cover) < 5 else 5))
            cuts = sorted(c for c in cuts if c < n)
        else:
            cuts = set(range(0, regions[1][2] + 64))
            for name, a, b in regions:
                cuts.update(range(max(0, a - 2), min(n, a + 3))); cuts.update(range(max(0, b - 2), min(n, b + 3)))
                if name == "relocations": cuts.update(range(a, b, 8 if not quick else 64)); cuts.update(range(a + 3, b, 8 * 13))
                else: cuts.update(range(a, b, 97 if not quick else 997))
            cuts = sorted(c for c in cuts if c < n)
        items = [("prefix", p, "chunk=0", region_of(regions, p)) for p in cuts]
        items += [("prefix", p, "chunk=7", region_of(regions, p)) for p in cuts[::5]]
        items += [("prefix", p, "file=1", region_of(regions, p)) for p in cuts[::7]]
        # field corruptions
        def vals(orig, width):
            vs = {0, 1, orig + 1, max(0, orig - 1), orig + 8, max(0, orig - 8), 0x7fffffff, 0xffffffff, n, n + 1, max(0, n - 1)}
            if width == 8: vs.update({(1 << 64) - 1, (1 << 63), (1 << 64) - 8, (1 << 32), orig + (1 << 32)})
            vs.discard(orig)
            return sorted(v for v in vs if v < (1 << (8 * width)))
        for i in range(4):
            for v in (0, img[i] ^ 1, 0xff): items.append(("corrupt", i, "%02x" % v, "magic", str(v)))
        for v in vals(img[4], 1)[:6]: items.append(("corrupt", 4, "%02x" % v, "version", str(v)))
        for v in vals(img[5], 1)[:8]: items.append(("corrupt", 5, "%02x" % v, "num_buffers", str(v)))
        for i, (off, size) in enumerate(tab):
            for v in vals(off, 8): items.append(("corrupt", 6 + 12 * i, struct.pack("<Q", v).hex(), "offset[%d]" % i, str(v)))
            last = i == max(j for j, (o_, s_) in enumerate(tab) if s_)
            for v in vals(size, 4): items.append(("corrupt", 6 + 12 * i + 8, struct.pack("<I", v).hex(), ("size-of-last-buffer[%d]" if last else "size[%d]") % i, str(v)))
        cover.append(dict(rule_set=label, image_bytes=n, prefixes=len(cuts), every_byte=len(cuts) == n, corruptions=sum(1 for x in items if x[0] == "corrupt"),
                          regions={name: b - a for name, a, b in regions if name != "buffer-body"}))
        for ch in yv.chunked(items, 150):
            jobs.append((label, srcs, ext, ref, ch))
    yv.drop_worker(VAR)
    stats = dict(rejected=0, accepted_equivalent=0)
    acc = {}
    distinct = 0
    for (label, res) in yv.pmap(run_chunk, jobs, ck, prebuild=(VAR,)):
        for (it, sig, det) in res:
            ck.cov["evaluations"] += 1; distinct += 1
            if sig is None:
                if det.startswith("accepted-equivalent:"):
                    acc[det.split(":", 1)[1]] = acc.get(det.split(":", 1)[1], 0) + 1; det = "accepted-equivalent"
                stats[det.replace("-", "_")] += 1
                if det == "accepted-equivalent" and stats["accepted_equivalent"] < 3:
                    ck.sample(dict(rule_set=label, case=list(it), outcome="load succeeded and the rules behave like the intact ones"))
                continue
            d = dict(det); d.update(rule_set=label, case=list(it))
            ck.violation(sig, d)
    ck.cov["distinct_nontrivial"] = distinct
    ck.cov["outcomes"] = stats
    ck.cov["accepted_equivalent_by_place"] = acc
    ck.cov["images"] = cover
    ck.sample(dict(rule_set=cover[1]["rule_set"], image_bytes=cover[1]["image_bytes"], prefixes_loaded=cover[1]["prefixes"]))
    ck.cov["rule"] = ("a case = one load attempt of a truncated prefix (stream whole / stream in 7-byte chunks / real file) or of an image with one header or "
                      "buffer-table field replaced by a boundary value; %d images; small images are cut at every byte; every case is distinct" % len(cover))
    ck.assumptions += ["buffer offsets are checked against the reference layout (any accepted change is a violation); an accepted change of a SIZE field or a cut is an alarm only if the loaded rules differ from the intact ones or crash (the format has no redundancy that would let a reference decide more; see the known finding on the uncounted relocation list)"]
    ck.finish()


if __name__ == "__main__":
    main()
