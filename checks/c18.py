#!/usr/bin/env python3
"""C18 - command-line results are independent of thread count and rule form.
 1. implementation-level schedule enumeration: the real cli/yara.c (main, scan_dir, file_queue_*, scanning_thread, callback /
    handle_message) linked against a scheduler shim instead of cli/threading.c; every semaphore wait/post, mutex lock/unlock,
    thread create/join and every printf is a scheduling point; all schedules with <= P preemptions (state-hash pruned) for
    p in {1,2,3} threads, directories of 0..4 files, queue slots Q in {1,2} (YARA_VERIF hook), several option sets.
    Oracle: the multiset of output BLOCKS (rule line + its string-match lines) equals the union over files of the blocks of a
    single-file run; every line intact; exit status; no deadlock.
 2. Promela model of the queue protocol (models/queue.pml) checked by Spin for larger parameters; bound to the code by
    replaying every complete model trace of the smallest configurations on the implementation.
 3. black-box differential with the real binaries: source rules vs yarac output (externals at either stage), -p 1..32, a
    200-file tree, exit status."""
import collections, hashlib, json, os, shutil, subprocess, sys
sys.path.insert(0, os.path.join(os.path.dirname(os.path.abspath(__file__)), "..", "lib"))
import yv

H = yv.H
REPO = yv.yvbuild.REPO
WORK = os.path.join(yv.yvbuild.BUILD, "c18")

RULES = '''rule r1 : t1 { meta: m = "x" strings: $a = "abcd" $b = "efgh" condition: $a or $b }
rule r2 { condition: filesize == 0 }
rule r3 : t2 { strings: $c = /x+y/ condition: #c > 1 }
rule r4 { condition: ext_i == 7 and ext_f > 2.2 and ext_f < 2.8 and ext_b and ext_s == "hello" and filesize > 2 }
rule r5 { condition: ext_i != 7 or ext_f == 2.0 or ext_f == 3.0 or not ext_b or ext_s != "hello" }
'''
FILES = [("f_a.txt", b"--abcd--efgh--abcd"), ("f_b.txt", b"nothing to see"), ("f_empty", b""), ("f_c.txt", b"xxy abcd xy xxxy"), ("f_pe", None)]
EXT = ["-d", "ext_i=7", "-d", "ext_f=2.5", "-d", "ext_b=true", "-d", "ext_s=hello"]          # one external of every type; the float has a fraction that matters
EXT_NEUTRAL = ["-d", "ext_i=0", "-d", "ext_f=0.0", "-d", "ext_b=false", "-d", "ext_s=zzz"]
OPTSETS = [[], ["-s"], ["-s", "-L", "-X"], ["-m", "-g", "-e"], ["-c"], ["-n"], ["-t", "t1"], ["-i", "r1"], ["-f"], ["-f", "-s"]]      # -f changes which occurrences are listed, visible only with -s


def sched_binary(q, t=3):
    """cli/yara.c compiled with main/printf renamed, the queue size (hook) and YR_MAX_THREADS (= finish tokens) overridden, linked with the shim"""
    info = yv.yvbuild.ensure("plain")
    out = os.path.join(info["dir"], "c18_q%d_t%d" % (q, t))
    srcs = [os.path.join(REPO, "cli", f) for f in ("yara.c", "args.c", "common.c")] + [os.path.join(H, f) for f in ("c18.c", "yvsched.c", "yvcommon.c", "yvsched.h", "yvcommon.h")]
    h = hashlib.sha256()
    for s in srcs: h.update(open(s, "rb").read())
    h.update(open(os.path.join(info["dir"], ".stamp"), "rb").read()); h.update(("%d/%d" % (q, t)).encode())
    st = out + ".stamp"
    if os.path.exists(out) and os.path.exists(st) and open(st).read() == h.hexdigest(): return out
    cf = [f for f in info["cflags"] if not f.startswith("-O")] + ["-O1", "-U_FORTIFY_SOURCE"]
    obj = out + "_yara.o"
    yv.yvbuild._run(["gcc", "-c", srcs[0], "-o", obj] + cf + ["-Dmain=yara_main", "-Dprintf(...)=yv_printf(__VA_ARGS__)", "-Dfprintf(...)=yv_fprintf(__VA_ARGS__)", "-DYARA_VERIF_MAX_QUEUED_FILES=%d" % q, "-DYR_MAX_THREADS=%d" % t])
    yv.yvbuild._run(["gcc", obj, srcs[1], srcs[2], os.path.join(H, "c18.c"), os.path.join(H, "yvsched.c"), os.path.join(H, "yvcommon.c"), "-o", out, "-I" + H] + cf + [info["lib"]] + info["ldflags"])
    open(st, "w").write(h.hexdigest())
    return out


def real_binaries():
    info = yv.yvbuild.ensure("plain")
    outs = {}
    for name, objs in (("yara", ["yara.c", "args.c", "common.c", "threading.c"]), ("yarac", ["yarac.c", "args.c", "common.c"])):
        out = os.path.join(info["dir"], "cli_" + name)
        if not os.path.exists(out) or os.path.getmtime(out) < os.path.getmtime(os.path.join(info["dir"], ".stamp")):
            yv.yvbuild._run(["gcc"] + [info["cliobjs"][o] for o in objs] + [os.path.join(H, "yvcommon.c"), "-I" + H, "-o", out, info["lib"]] + info["ldflags"])
        outs[name] = out
    return outs


def make_tree():
    shutil.rmtree(WORK, ignore_errors=True)
    os.makedirs(WORK)
    open(os.path.join(WORK, "rules.yar"), "w").write(RULES)
    dirs = {}
    for n in range(0, 5):
        d = os.path.join(WORK, "d%d" % n); os.makedirs(d)
        for (name, data) in FILES[:n]:
            open(os.path.join(d, name), "wb").write(data if data is not None else yv.blob("PE32_FILE"))
        dirs[n] = d
    return dirs


class Driver:
    def __init__(self, exe):
        os.makedirs(yv.TMP, exist_ok=True)
        self.p = subprocess.Popen([exe, yv.TMP], stdin=subprocess.PIPE, stdout=subprocess.PIPE, stderr=subprocess.DEVNULL)
    def run(self, nthreads, sched, args):
        self.p.stdin.write(("RUN %d | %s | %s\n" % (nthreads, ",".join(map(str, sched)) or "-", " ".join(args))).encode()); self.p.stdin.flush()
        return json.loads(self.p.stdout.readline())


_drv = {}
def run_one(arg):
    exe, nthreads, sched, args = arg
    key = (os.getpid(), exe)
    d = _drv.get(key)
    if d is None:
        d = Driver(exe); _drv[key] = d
    return sched, d.run(nthreads, sched, args)


def blocks(text, opts):
    """split the output into blocks: a rule line followed by its string-match lines (lines starting with 0x)"""
    out, cur = [], None
    for ln in text.split("\n"):
        if not ln: continue
        if ln.startswith("0x") and cur is not None and ("-s" in opts or "-L" in opts):
            cur.append(ln)
        else:
            if cur is not None: out.append("\n".join(cur))
            cur = [ln]
    if cur is not None: out.append("\n".join(cur))
    return out


def explore(ck, exe, label, nthreads, args, opts, expected_blocks, expected_lines, expected_exit, bound, stats):
    import multiprocessing as mp
    seen, states = {}, set()
    frontier = [[]]
    execs = 0
    outcomes = set()
    ctx = mp.get_context("fork")
    with ctx.Pool(16) as pool:
        while frontier and not ck.expired():
            results = pool.map(run_one, [(exe, nthreads, s, args) for s in frontier], chunksize=4)
            nxt = []
            for (sched, r) in results:
                execs += 1
                det = dict(config=label, threads=nthreads, args=args, schedule=sched)
                if "crash" in r:
                    ck.violation("C18:sched:crash:%s" % r["crash"], dict(det, stderr=r.get("stderr", "")[-1500:])); continue
                if r["diverged"]:
                    ck.violation("C18:harness:schedule-diverged-on-replay", det); continue
                if r["deadlock"]:
                    ck.violation("C18:sched:deadlock", dict(det, points=[[p[0], p[2], p[3]] for p in r["points"]][-60:])); continue
                got = blocks(r["stdout"], opts)
                outcomes.add(r["stdout"])
                if any(ln not in expected_lines for ln in r["stdout"].split("\n") if ln):
                    ck.violation("C18:sched:line-not-intact:%s" % ("".join(opts) or "default"), dict(det, stdout=r["stdout"], expected_lines=sorted(expected_lines)))
                elif collections.Counter(got) != expected_blocks:
                    kind = "blocks-differ" if collections.Counter(r["stdout"].split("\n")) == collections.Counter("\n".join(expected_blocks.elements()).split("\n") + [""]) or True else "lines-differ"
                    same_lines = sorted(l for b in got for l in b.split("\n")) == sorted(l for b in expected_blocks.elements() for l in b.split("\n"))
                    ck.violation("C18:sched:%s:%s" % ("match-lines-under-wrong-rule-line" if same_lines else "output-differs-from-per-file-runs", "".join(opts) or "default"),
                                 dict(det, stdout=r["stdout"], expected_blocks=sorted(expected_blocks.elements())))
                if (r["exit"] != 0) != (expected_exit != 0):
                    ck.violation("C18:sched:exit-status", dict(det, exit=r["exit"], expected=expected_exit))
                pts = r["points"]
                choices = [p[2] for p in pts]
                pre, pre_at = 0, []
                for p in pts:
                    pre_at.append(pre)
                    if p[0] >= 0 and (p[1] >> p[0]) & 1 and p[2] != p[0]: pre += 1
                for i in range(len(sched), len(pts)):
                    tid, en, ch, lab, h = pts[i][:5]
                    states.add(h); seen.setdefault((h, ch), pre_at[i])
                    for alt in range(8):
                        if not (en >> alt) & 1 or alt == ch: continue
                        cost = pre_at[i] + (1 if (tid >= 0 and (en >> tid) & 1 and alt != tid) else 0)
                        if bound is not None and cost > bound: continue
                        if (h, alt) in seen and seen[(h, alt)] <= cost: continue
                        seen[(h, alt)] = cost
                        nxt.append(choices[:i] + [alt])
            frontier = nxt
    stats["states"] += len(states); stats["transitions"] += len(seen); stats["executions"] += execs
    if frontier: ck.cov["exhaustive"] = False
    return dict(executions=execs, states=len(states), transitions=len(seen), distinct_outputs=len(outcomes), completed=not frontier)


def schedule_part(ck, quick, stats):
    dirs = make_tree()
    rules = os.path.join(WORK, "rules.yar")
    table = []
    for q in (1, 2):
        exe = sched_binary(q)
        d0 = Driver(exe)
        for n in ((2, 3) if quick else (0, 1, 2, 3, 4)):
            for opts in (OPTSETS[:3] + OPTSETS[4:5] + OPTSETS[9:] if quick else OPTSETS):
                base = EXT + opts + [rules]
                # reference: every file alone, single-file mode (no scanning threads)
                exp_blocks, exp_lines, exp_exit = collections.Counter(), set(), 0
                for (name, _) in FILES[:n]:
                    fp = os.path.join(dirs[n], name)
                    r = d0.run(0, [], base + [fp])
                    if "crash" in r:
                        ck.violation("C18:reference-run-failed", dict(args=base + [fp], result=r)); continue
                    txt = r["stdout"]
                    if "-c" in opts:   # count mode prints "<n>" for a single file and "<path>: <n>" for directories
                        txt = "\n".join("%s: %s" % (fp, l) for l in txt.split("\n") if l)
                    for b in blocks(txt, opts): exp_blocks[b] += 1
                    exp_lines.update(l for l in txt.split("\n") if l)
                    if r["exit"] != 0: exp_exit = 1
                for p in ((2,) if quick else (1, 2, 3)):
                    if q == 2 and (p == 1 or (quick and n == 3 and opts)): continue
                    bound = 2 if quick else (3 if (n <= 2 and p <= 2) else 2)
                    if quick and p == 2 and n == 3: bound = 1
                    label = "Q=%d files=%d p=%d opts=%s" % (q, n, p, " ".join(opts) or "-")
                    res = explore(ck, exe, label, p, base + ["-p", str(p), dirs[n]], opts, exp_blocks, exp_lines, exp_exit, bound, stats)
                    res.update(config=label, preemption_bound=bound)
                    table.append(res)
                    if ck.expired(): break
        d0.p.kill()
    ck.cov["schedule_configs"] = table
    return table


def blackbox_part(ck, quick):
    bins = real_binaries()
    dirs = make_tree()
    big = os.path.join(WORK, "big"); os.makedirs(big)
    for i in range(200):
        sub = os.path.join(big, ("s%d" % (i % 7)) if i % 11 else (".dot/sub" if i % 2 else "s1/..data")); os.makedirs(sub, exist_ok=True)     # -r descends into dot-named directories too
        data = [b"--abcd--abcd--", b"nothing", b"", b"xxy xy efgh", yv.blob("PE32_FILE")][i % 5] + (b"%d" % i if i % 5 != 2 else b"")
        open(os.path.join(sub, "file%03d" % i), "wb").write(data)
    rules = os.path.join(WORK, "rules.yar")
    n = 0
    def run(args):
        p = subprocess.run(args, stdout=subprocess.PIPE, stderr=subprocess.PIPE, timeout=300)
        return p.returncode, p.stdout.decode(errors="replace"), p.stderr.decode(errors="replace")
    # compiled forms: external given at compile time, at scan time, or both
    c1 = os.path.join(WORK, "r_ext7.yarc"); c2 = os.path.join(WORK, "r_ext0.yarc")
    run([bins["yarac"]] + EXT + [rules, c1]); run([bins["yarac"]] + EXT_NEUTRAL + [rules, c2])
    forms = [("source", EXT + [rules]), ("compiled:ext-at-compile-time", ["-C", c1]), ("compiled:ext-at-scan-time", ["-C"] + EXT + [c2]), ("compiled:both", ["-C"] + EXT + [c1])]
    allfiles = sorted(os.path.join(dp, f) for dp, _, fs in os.walk(big) for f in fs)
    for opts in (OPTSETS if not quick else OPTSETS[:2] + OPTSETS[3:5] + OPTSETS[9:]):
        # reference: every file in its own invocation (single-file mode: no scanning threads, options applied on the single-file path)
        ref = None
        per_file = collections.Counter(); per_rc = 0
        for fp in allfiles:
            rc, out, err = run([bins["yara"]] + opts + EXT + [rules, fp]); n += 1
            if "-c" in opts: out = "\n".join("%s: %s" % (fp, l) for l in out.split("\n") if l)
            per_file.update(blocks(out, opts)); per_rc |= (rc != 0)
        ref = ((per_file, bool(per_rc)), "per-file-invocations", 0)
        for fname, fargs in forms:
            for p in ((1, 4) if quick else (1, 2, 4, 8, 32)):
                for rep in range(1 if quick else 3):
                    rc, out, err = run([bins["yara"], "-r", "-p", str(p)] + opts + fargs + [big]); n += 1
                    obs = (collections.Counter(blocks(out, opts)), rc != 0)
                    if ref is None: ref = (obs, fname, p)
                    elif obs != ref[0]:
                        what = "directory-vs-per-file" if (fname == "source" and ref[1] == "per-file-invocations") else "compiled-vs-source" if fname != ref[1] else "thread-count"
                        ck.violation("C18:blackbox:%s:%s" % (what, fname.split(":")[-1]), dict(options=opts, form=fname, threads=p, reference_form=ref[1], reference_threads=ref[2], exit=rc,
                                                                                        only_here=sorted((obs[0] - ref[0][0]).elements())[:5], only_reference=sorted((ref[0][0] - obs[0]).elements())[:5], stderr=err[-500:]))
    # exit status: an error reported for a file of a directory scan must make the exit status non-zero, as it does for the file alone
    bad = os.path.join(WORK, "errdir"); os.makedirs(bad)
    open(os.path.join(bad, "many"), "wb").write(b"q" * 1000100); open(os.path.join(bad, "ok"), "wb").write(b"abcd")
    r2 = os.path.join(WORK, "many.yar"); open(r2, "w").write('rule many { strings: $q = "qqqq" condition: $q }')
    rc_dir, out_dir, err_dir = run([bins["yara"], "--fail-on-warnings", "-p", "2", r2, bad]); rc_file, _, err_file = run([bins["yara"], "--fail-on-warnings", r2, os.path.join(bad, "many")]); n += 2
    if ("error" in err_dir) != (rc_dir != 0) or ("error" in err_file) != (rc_file != 0):
        ck.violation("C18:blackbox:exit-status:error-reported-but-exit-0:%s" % ("directory-mode" if ("error" in err_dir) != (rc_dir != 0) else "single-file"),
                     dict(directory_exit=rc_dir, directory_stderr=err_dir[-300:], single_file_exit=rc_file, single_file_stderr=err_file[-300:]))
    # the same for an error in the FIRST file a worker scans (later good files must not wipe it): scan order discovered with -p 1, then that file gets the failing content
    od = os.path.join(WORK, "orderdir"); os.makedirs(od)
    for i in range(9): open(os.path.join(od, "g%d" % i), "wb").write(b"plain %d" % i)
    r3 = os.path.join(WORK, "deep.yar")
    open(r3, "w").write('rule every { condition: true } rule deep { strings: $t = "TRIGGER" condition: $t and (' + "1 + (" * 12 + "1" + ")" * 12 + ' > 0) }')
    _, order_out, _ = run([bins["yara"], "-p", "1", "-i", "every", r3, od]); n += 1
    order = [l.split(" ", 1)[1] for l in order_out.split("\n") if l.startswith("every ")]
    if len(order) == 9:
        for pos in (0, 4):
            for f_ in order: open(f_, "wb").write(b"plain")
            open(order[pos], "wb").write(b"xx TRIGGER xx")
            rc_f, _, err_f = run([bins["yara"], "-k", "8", r3, order[pos]]); n += 1
            for p_ in (1, 2):
                rc_d, _, err_d = run([bins["yara"], "-k", "8", "-p", str(p_), r3, od]); n += 1
                if (rc_f != 0) != (rc_d != 0) or ("error" in err_f) != ("error" in err_d):
                    ck.violation("C18:blackbox:exit-status:error-in-an-early-file-lost", dict(position_in_scan_order=pos, threads=p_, single_file_exit=rc_f, directory_exit=rc_d, directory_stderr=err_d[-300:], single_file_stderr=err_f[-300:]))
    else:
        ck.violation("C18:harness:scan-order-probe-failed", dict(output=order_out[-500:]))
    # a file whose scan ends with a per-scan error (regexp fiber limit) in the middle of a worker's run: the files the same worker takes afterwards must be
    # reported as when scanned alone (the worker's scanner is reused after the failed scan)
    fd_ = os.path.join(WORK, "fibdir"); os.makedirs(fd_)
    for i in range(10): open(os.path.join(fd_, "h%d" % i), "wb").write(b"plain %d" % i)
    r5 = os.path.join(WORK, "fib.yar")
    open(r5, "w").write('rule every { condition: true } rule fib { strings: $r = /abcd([ef]{1,40}[eg]{1,40}){1,40}h/ condition: $r } rule rx { strings: $r = /xy[a-c]+z/ $h = { 78 79 ?? [1-3] 7A } condition: $r and $h }')
    _, order_out, _ = run([bins["yara"], "-p", "1", "-i", "every", r5, fd_]); n += 1
    order = [l.split(" ", 1)[1] for l in order_out.split("\n") if l.startswith("every ")]
    if len(order) == 10:
        for pos in (0, 3):
            for k_, f_ in enumerate(order): open(f_, "wb").write(b"-- xyabcz %d --" % k_)
            open(order[pos], "wb").write(b"abcd" + b"e" * 3000)
            per_out, per_err = collections.Counter(), collections.Counter()
            for f_ in order:
                _, o_, e_ = run([bins["yara"], r5, f_]); n += 1
                per_out.update(l for l in o_.split("\n") if l); per_err.update(l for l in e_.split("\n") if l.startswith("error"))
            for p_ in (1, 2, 4):
                _, o_, e_ = run([bins["yara"], "-p", str(p_), r5, fd_]); n += 1
                got_out, got_err = collections.Counter(l for l in o_.split("\n") if l), collections.Counter(l for l in e_.split("\n") if l.startswith("error"))
                if got_out != per_out or got_err != per_err:
                    ck.violation("C18:blackbox:files-after-a-failed-scan:directory-vs-per-file", dict(failing_file_position=pos, threads=p_, only_directory=sorted(((got_out - per_out) + (got_err - per_err)).elements())[:6],
                                                                                                     only_per_file=sorted(((per_out - got_out) + (per_err - got_err)).elements())[:6]))
        if not any("error" in l for l in per_err): ck.violation("C18:harness:fiber-limit-file-did-not-fail", dict(stderr=list(per_err)))
    else:
        ck.violation("C18:harness:scan-order-probe-failed", dict(output=order_out[-500:]))
    # an external variable named like a built-in module (`-d time=5`) next to imported modules: a worker's scanner must start every file with fresh module state
    # (files of equal size and different content: a digest or a parsed header left over from the previous file would be reported for the next one)
    md_ = os.path.join(WORK, "moddir"); os.makedirs(md_)
    import hashlib
    conts = [b"record-%02d-padding" % i for i in range(10)] + [yv.blob("ELF32_FILE"), yv.blob("PE32_FILE")]
    for i, c_ in enumerate(conts): open(os.path.join(md_, "m%02d" % i), "wb").write(c_)
    r6 = os.path.join(WORK, "mod.yar")
    open(r6, "w").write('import "hash" import "elf" import "pe" import "math"\n'
                        'rule known { condition: time == 5 and hash.md5(0, filesize) == "%s" }\n' % hashlib.md5(conts[3]).hexdigest() +
                        'rule sha { condition: hash.sha256(0, filesize) == "%s" }\n' % hashlib.sha256(conts[7]).hexdigest() +
                        'rule iself { condition: time == 5 and elf.type == elf.ET_EXEC }\nrule ispe { condition: pe.number_of_sections > 0 }\nrule ent { condition: time == 5 and math.entropy(0, filesize) > 3.0 }\n')
    mfiles = sorted(os.path.join(md_, f) for f in os.listdir(md_))
    for dargs in (["-d", "time=5"], ["-d", "time=5", "-d", "tests=1"]):
        per = collections.Counter()
        for fp in mfiles:
            _, o_, _ = run([bins["yara"]] + dargs + [r6, fp]); n += 1
            per.update(l for l in o_.split("\n") if l)
        for p_ in (1, 2, 4):
            rc_, o_, e_ = run([bins["yara"], "-p", str(p_)] + dargs + [r6, md_]); n += 1
            got = collections.Counter(l for l in o_.split("\n") if l)
            if got != per:
                ck.violation("C18:blackbox:external-named-like-a-module:directory-vs-per-file", dict(defines=dargs, threads=p_, only_directory=sorted((got - per).elements())[:6], only_per_file=sorted((per - got).elements())[:6], stderr=e_[-300:]))
        if len(per) < 4: ck.violation("C18:harness:module-probe-rules-do-not-match", dict(lines=sorted(per.elements())))
    # a rule set wider than one 64-bit word of the scanner's per-rule bitmaps: every worker reuses its scanner for all the files it takes from the queue
    wd = os.path.join(WORK, "widedir"); os.makedirs(wd)
    for i in range(12):
        open(os.path.join(wd, "w%02d" % i), "wb").write(b"plain " + (b"tok%02d " % (60 + i) if i % 3 == 0 else b"") + (b"tok03" if i == 5 else b""))
    r4 = os.path.join(WORK, "wide.yar")
    open(r4, "w").write("\n".join('rule r%02d { strings: $s = "tok%02d" condition: $s }' % (k, k) for k in range(72)))
    wfiles = sorted(os.path.join(wd, f) for f in os.listdir(wd))
    for opts in ([], ["-c"], ["-n", "-i", "r66"]):
        per = collections.Counter()
        for fp in wfiles:
            rc, out, _ = run([bins["yara"]] + opts + [r4, fp]); n += 1
            if "-c" in opts: out = "\n".join("%s: %s" % (fp, l) for l in out.split("\n") if l)
            per.update(l for l in out.split("\n") if l)
        for p_ in (1, 2, 4):
            rc, out, _ = run([bins["yara"], "-p", str(p_)] + opts + [r4, wd]); n += 1
            got = collections.Counter(l for l in out.split("\n") if l)
            if got != per:
                ck.violation("C18:blackbox:wide-rule-set:directory-vs-per-file", dict(options=opts, threads=p_, only_directory=sorted((got - per).elements())[:6], only_per_file=sorted((per - got).elements())[:6]))
    # -l N : the limit counter is process-global by design ("abort scanning after matching a number of rules"), so the per-file equivalence cannot hold for a directory
    lim = os.path.join(WORK, "limdir"); os.makedirs(lim)
    for i in range(3): open(os.path.join(lim, "m%d" % i), "wb").write(b"--abcd--")
    rc, out_dir, _ = run([bins["yara"]] + EXT + ["-l", "2", "-p", "1", rules, lim]); n += 1
    per_file = []
    for i in range(3):
        _, o, _ = run([bins["yara"]] + EXT + ["-l", "2", rules, os.path.join(lim, "m%d" % i)]); per_file += [l for l in o.split("\n") if l]; n += 1
    if sorted(l for l in out_dir.split("\n") if l) != sorted(per_file):
        ck.violation("C18:blackbox:-l:limit-is-process-global", dict(directory_lines=out_dir.split("\n"), per_file_lines=per_file))
    ck.sub("blackbox", runs=n, files=200)
    return n


def main():
    ck = yv.Check("C18", "model_checking", deadlines=(300, 2700))
    quick = ck.tier == "quick"
    stats = dict(states=0, transitions=0, executions=0)
    table = schedule_part(ck, quick, stats)
    import c18_model
    m = c18_model.run(ck, quick, sched_binary(1))
    nbb = blackbox_part(ck, quick)
    ck.cov["states"] = max(1, stats["states"] + m["states"])
    ck.cov["transitions"] = max(1, stats["transitions"] + m["transitions"])
    ck.cov["traces_validated_against_impl"] = stats["executions"] + m["traces_replayed"]
    ck.cov["evaluations"] = stats["executions"] + nbb + m["traces_replayed"]
    ck.cov["distinct_nontrivial"] = stats["states"]
    if table: ck.sample(table[len(table) // 2])
    ck.cov["rule"] = ("implementation level: schedules of the real CLI main under the scheduler shim, DFS with prefix replay, preemption bound per configuration (subspace table), "
                      "states = distinct hashes of (per-thread progress, mutex owners, semaphore values, queue indices, output length); model level: Spin states of models/queue.pml; "
                      "binding: every complete trace of the smallest model configurations replayed on the implementation")
    ck.assumptions += ["cli/threading.c is replaced by a shim (semaphores, mutexes, create/join on the cooperative scheduler); libyara itself runs unscheduled inside the CLI threads",
                       "deadline-based waits never time out in the explored runs"]
    ck.finish()


if __name__ == "__main__":
    sys.path.insert(0, os.path.dirname(os.path.abspath(__file__)))
    main()
