"""C18 part 2: TLA+ model of the CLI file queue (models/CliQueue.tla) checked by TLC, bound to the implementation.

 * larger parameters (K <= 4 consumers, N <= 6 files, Q <= 3 slots, T in {K, 32}): TLC checks NoOverflow, SemBounds,
   EachFileOnce, TypeOK and absence of deadlock; with T = K-1 finish tokens TLC MUST report a deadlock (a model that cannot
   fail has not been shown to work).
 * binding at the smallest configurations: TLC dumps the complete labelled state graph; the implementation (the real
   cli/yara.c under the scheduler shim, preemption bound lifted) is explored completely; the two sets of abstract transitions
   (state, acting thread, successor state) over (status, points passed) per thread + (unused, used) + (head, tail) must be
   EQUAL; in addition a path from the initial state to every model transition is replayed as a schedule on the implementation
   and the abstract state is compared after every step."""
import collections, json, os, re, shutil, subprocess, sys
sys.path.insert(0, os.path.join(os.path.dirname(os.path.abspath(__file__)), "..", "lib"))
import yv

MODELS = os.path.join(yv.VERIF, "models")


def tlc(K, N, Q, T, dump=False, workdir=None):
    d = workdir or os.path.join(yv.yvbuild.BUILD, "tlc", "K%dN%dQ%dT%d" % (K, N, Q, T))
    shutil.rmtree(d, ignore_errors=True); os.makedirs(d)
    shutil.copy(os.path.join(MODELS, "CliQueue.tla"), d)
    open(os.path.join(d, "CliQueue.cfg"), "w").write(open(os.path.join(MODELS, "CliQueue.cfg.tmpl")).read() % dict(K=K, N=N, Q=Q, T=T))
    cmd = ["tlc", "-workers", "8", "-metadir", os.path.join(d, "states")] + (["-dump", "dot,actionlabels", os.path.join(d, "g.dot")] if dump else []) + ["CliQueue.tla"]
    p = subprocess.run(cmd, cwd=d, stdout=subprocess.PIPE, stderr=subprocess.STDOUT, timeout=1800)
    out = p.stdout.decode(errors="replace")
    m = re.search(r"(\d+) states generated, (\d+) distinct states found", out)
    res = dict(generated=int(m.group(1)) if m else 0, distinct=int(m.group(2)) if m else 0, deadlock="Deadlock reached" in out,
               invariant_violated=re.findall(r"Invariant (\w+) is violated", out), ok="No error has been found" in out, out=out[-1500:])
    shutil.rmtree(os.path.join(d, "states"), ignore_errors=True)
    return res, d


def parse_dot(path):
    nodes, edges = {}, []
    for ln in open(path):
        m = re.match(r'^(-?\d+) \[label="((?:[^"\\]|\\.)*)"', ln)
        if m and " -> " not in ln.split("[")[0]:
            lab = m.group(2).replace("\\n", "\n").replace('\\"', '"').replace("\\\\", "\\")
            v = {}
            for part in lab.split("/\\ ")[1:]:
                k, val = part.strip().split(" = ", 1)
                v[k] = val.strip()
            nodes[m.group(1)] = v
            continue
        m = re.match(r'^(-?\d+) -> (-?\d+) \[label="(\w+)(?:\((\d+)\))?"', ln)
        if m:
            edges.append((m.group(1), m.group(2), m.group(3), int(m.group(4)) if m.group(4) else None))
    return nodes, edges


def abs_of(v):
    st = re.findall(r'"(\w)"', v["st"]); np = re.findall(r"\d+", v["np"])
    return "".join("%s%s;" % (s, n) for s, n in zip(st, np)) + "|%s,%s|%s,%s" % (v["unused"], v["used"], v["head"], v["tail"])


def impl_explore(exe, K, args, ck):
    """complete (unbounded) exploration of the implementation; returns the set of abstract transitions and execution count"""
    sys.path.insert(0, os.path.dirname(os.path.abspath(__file__)))
    import c18
    d = c18.Driver(exe)
    trans, seen, frontier, execs = set(), set(), [[]], 0
    finals = set()
    while frontier:
        nxt = []
        for sched in frontier:
            r = d.run(K, sched, args); execs += 1
            if "crash" in r or r.get("diverged"):
                ck.violation("C18:binding:implementation-run-failed", dict(schedule=sched, result={k: v for k, v in r.items() if k != "points"})); continue
            pts = r["points"]
            choices = [p[2] for p in pts]
            for i, p in enumerate(pts):
                nxt_abs = pts[i + 1][5] if i + 1 < len(pts) else r["final"]
                if p[2] >= 0: trans.add((p[5], p[2] + 1, nxt_abs))
                if i >= len(sched):
                    for alt in range(8):
                        if (p[1] >> alt) & 1 and alt != p[2] and (p[4], alt) not in seen:
                            seen.add((p[4], alt)); nxt.append(choices[:i] + [alt])
                seen.add((p[4], p[2]))
            finals.add((r["final"], r["deadlock"]))
        frontier = nxt
    d.p.kill()
    return trans, execs, finals


def run(ck, quick, _exe_unused):
    sys.path.insert(0, os.path.dirname(os.path.abspath(__file__)))
    import c18
    total = dict(states=0, transitions=0, traces_replayed=0)
    table = []
    # ---- model checking for larger parameters
    params = [(2, 3, 1, 2), (3, 4, 2, 3), (2, 2, 1, 32)] if quick else [(2, 3, 1, 2), (3, 4, 2, 3), (4, 6, 3, 4), (3, 5, 1, 32), (4, 4, 2, 32), (2, 6, 3, 2)]
    for (K, N, Q, T) in params:
        res, _ = tlc(K, N, Q, T)
        total["states"] += res["distinct"]; total["transitions"] += res["generated"]
        table.append(dict(K=K, N=N, Q=Q, T=T, distinct_states=res["distinct"], states_generated=res["generated"], ok=res["ok"]))
        if not res["ok"]:
            what = "deadlock" if res["deadlock"] else ("invariant-" + ",".join(res["invariant_violated"])) if res["invariant_violated"] else "tlc-error"
            ck.violation("C18:model:%s" % what, dict(K=K, N=N, Q=Q, T=T, tlc_output=res["out"]))
    # the model must be able to fail: K-1 finish tokens deadlock
    res, _ = tlc(2, 1, 1, 1)
    table.append(dict(K=2, N=1, Q=1, T=1, expected="deadlock", deadlock=res["deadlock"], distinct_states=res["distinct"]))
    if not res["deadlock"]:
        ck.violation("C18:model:sanity:too-few-finish-tokens-do-not-deadlock", dict(tlc_output=res["out"]))
    # ---- binding at the smallest configurations
    dirs = c18.make_tree()
    rules = os.path.join(c18.WORK, "none.yar"); open(rules, "w").write("rule nomatch { condition: false }")
    for (K, N, Q, T) in ([(1, 1, 1, 1), (2, 1, 1, 2)] if quick else [(1, 1, 1, 1), (1, 2, 1, 1), (2, 1, 1, 2), (2, 2, 1, 2), (2, 2, 2, 2)]):
        res, d = tlc(K, N, Q, T, dump=True)
        if not res["ok"]:
            ck.violation("C18:model:binding-config-fails", dict(K=K, N=N, Q=Q, T=T, tlc_output=res["out"])); continue
        nodes, edges = parse_dot(os.path.join(d, "g.dot"))
        mtrans = set()
        for a, b, act, arg in edges:
            if act == "Step": mtrans.add((abs_of(nodes[a]), arg, abs_of(nodes[b])))
        exe = c18.sched_binary(Q, T)
        itrans, execs, finals = impl_explore(exe, K, [rules, "-p", str(K), dirs[N]], ck)
        only_model, only_impl = mtrans - itrans, itrans - mtrans
        if only_model or only_impl:
            ck.violation("C18:binding:model-and-implementation-transition-sets-differ", dict(K=K, N=N, Q=Q, T=T, only_in_model=sorted(only_model)[:8], only_in_implementation=sorted(only_impl)[:8],
                                                                                           model_transitions=len(mtrans), implementation_transitions=len(itrans)))
        # replay a path to every model edge on the implementation
        succ = collections.defaultdict(list)
        init = None
        for a, b, act, arg in edges:
            if act == "Step": succ[a].append((b, arg))
        for k, v in nodes.items():
            if v["np"].replace(" ", "") == "<<" + ",".join(["0"] * (K + 1)) + ">>" and v["last"] == "0": init = k
        path = {init: []}
        queue = collections.deque([init])
        while queue:
            a = queue.popleft()
            for b, arg in succ[a]:
                if b not in path: path[b] = path[a] + [(arg, b)]; queue.append(b)
        drv = c18.Driver(exe)
        replayed = 0
        covered = set()
        for a, b, act, arg in edges:
            if act != "Step" or (a, b, arg) in covered: continue
            steps = path[a] + [(arg, b)]
            sched = [t - 1 for (t, _) in steps]                    # decision j (0-based) picks the thread that performs model step j+1
            r = drv.run(K, sched, [rules, "-p", str(K), dirs[N]]); replayed += 1
            pts = r.get("points", [])
            ok = "crash" not in r and not r.get("diverged") and len(pts) >= len(steps)
            if ok:
                exp = [abs_of(nodes[init])] + [abs_of(nodes[n]) for (_, n) in steps]
                # pts[j] holds the abstract state at decision j, i.e. after j model steps
                got_states = [(pts[j][5] if j < len(pts) else r["final"]) for j in range(len(steps) + 1)]
                ok = got_states == exp and [p[2] for p in pts[:len(steps)]] == sched
            if not ok:
                ck.violation("C18:binding:model-trace-not-reproduced-by-implementation", dict(K=K, N=N, Q=Q, T=T, schedule=sched, expected=[abs_of(nodes[n]) for (_, n) in steps][-4:],
                                                                                         observed=[p[5] for p in pts][-5:] + [r.get("final")]))
                break
            for i in range(len(steps)):
                covered.add(((steps[i - 1][1] if i else init), steps[i][1], steps[i][0]))
        drv.p.kill()
        total["traces_replayed"] += replayed + execs
        total["states"] += res["distinct"]; total["transitions"] += len(mtrans)
        table.append(dict(K=K, N=N, Q=Q, T=T, binding=True, model_transitions=len(mtrans), implementation_transitions=len(itrans), implementation_executions=execs, model_paths_replayed=replayed,
                          equal=not (only_model or only_impl)))
    ck.cov["model"] = table
    return total
