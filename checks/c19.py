#!/usr/bin/env python3
"""C19 - compiled rules do not depend on how internal storage grew.
With the YARA_VERIF hook (initial arena buffer size settable) each rule set is compiled with EVERY initial capacity c in
1..U (U = size of the largest arena buffer of that rule set, capped) plus powers of two up to the default 1 MiB.  An allocation
j of a buffer (used u_j, size s_j) is the first growth point of the run c = u_j, so sweeping all c makes every allocation of
every buffer a growth point in some run.  Runs under ASan, where realloc always moves the block and poisons the old one.
Oracle: identical compile result, identical traces on 12 buffers, byte-identical saved image."""
import json, os, struct, sys
sys.path.insert(0, os.path.join(os.path.dirname(os.path.abspath(__file__)), "..", "lib"))
sys.path.insert(0, os.path.dirname(os.path.abspath(__file__)))
import yv, c08

VAR = "asan"


def compile_cmds(srcs, ext, arena):
    return (["reset", "compiler 0 arena=%d" % arena] + ["defc 0 %s %s %s" % (n, t, yv.hx(v) if t == "s" else v) for (n, t, v) in ext] +
            ["add 0 %s %s" % (ns, yv.hx(t)) for ns, t in srcs] + ["getrules 0 0", "cdestroy 0"])


def buffer_sizes(blobhex):
    b = bytes.fromhex(blobhex)
    nb = b[5]
    return [struct.unpack_from("<QI", b, 6 + 12 * i)[1] for i in range(nb)]


def reference(w, srcs, ext, bufs):
    rep = w.batch(compile_cmds(srcs, ext, 0) + ["save 0 0", "blobget 0"] + c08.scan_all("r0", bufs))
    adds = [r for r in rep if "errors" in r]
    if any(a["errors"] for a in adds): return None
    k = len(rep) - len(bufs)
    return dict(hash=rep[k - 2]["hash"], sizes=buffer_sizes(rep[k - 1]["hex"]), obs=c08.obs(rep[k:]), warnings=[a["msgs"] for a in adds])


def run_chunk(arg):
    label, srcs, ext, ref, caps = arg
    w = yv.get_worker(VAR)
    bufs = c08.buffers()
    out = []
    for c in caps:
        try:
            rep = w.batch(compile_cmds(srcs, ext, c) + ["save 0 1"] + c08.scan_all("r0", bufs))
        except (yv.WorkerDied, yv.WorkerHang) as e:
            err = getattr(e, "err", "")
            yv.drop_worker(VAR); w = yv.get_worker(VAR)
            kind = "use-after-free" if "heap-use-after-free" in err else "assert" if "Assertion" in err else "asan" if "AddressSanitizer" in err else "signal"
            frame = ""
            for l in err.splitlines():
                if "/libyara/" in l and " in " in l:
                    frame = l.split(" in ")[1].split(" ")[0]; break
            out.append((c, "C19:crash:%s:%s" % (kind, frame or (e.cmd.split() or ["?"])[0]), dict(error=str(e), stderr=err[-3000:]))); continue
        adds = [r for r in rep if "errors" in r]
        if any(a["errors"] for a in adds) or [a["msgs"] for a in adds] != ref["warnings"]:
            out.append((c, "C19:compile-result-differs", dict(messages=[a["msgs"] for a in adds], reference=ref["warnings"]))); continue
        k = len(rep) - len(bufs)
        if rep[k - 1].get("hash") != ref["hash"]:
            out.append((c, "C19:saved-image-differs", dict(save=rep[k - 1], reference_hash=ref["hash"]))); continue
        if c08.obs(rep[k:]) != ref["obs"]:
            out.append((c, "C19:behaviour-differs", dict(observed=json.loads(c08.obs(rep[k:])), reference=json.loads(ref["obs"])))); continue
        out.append((c, None, None))
    return label, srcs, out


def main():
    ck = yv.Check("C19", "exploration")
    quick = ck.tier == "quick"
    K = c08.constructs(); bufs = c08.buffers()
    w = yv.get_worker(VAR)
    sets = [[k] for k in K]
    idx = {k["name"]: k for k in K}
    pairs = [("hexchain", "regexchain"), ("text", "hexchain3"), ("manystrings", "regexwide"), ("base64", "xor"), ("pe", "tests"), ("ns2", "global"), ("metas", "tags"),
             ("privaterule", "ruleset"), ("extstring", "matches"), ("forof", "ofthem")]
    sets += [[idx[a], idx[b]] for a, b in pairs]
    if not quick:
        names = [k["name"] for k in K]
        sets += [[idx[a], idx[b]] for i, a in enumerate(names) for j, b in enumerate(names) if (i * 7 + j * 3) % 11 == 0 and a != b]
        sets.append(list(K))
    capcap = 1024 if quick else 8192
    jobs = []
    cover = []
    for parts in sets:
        label = "+".join(p["name"] for p in parts)
        srcs, ext = c08.rule_text([(p, "r%d_%s" % (i, p["name"])) for i, p in enumerate(parts)])
        ref = reference(w, srcs, ext, bufs)
        if ref is None:
            ck.violation("C19:construct-does-not-compile", dict(label=label)); continue
        U = max(ref["sizes"])
        caps = list(range(1, min(U, capcap) + 1))
        if U > capcap:
            # beyond the cap: every size of the smaller buffers is still covered; add a stride over the rest and the exact buffer sizes +-1
            caps += list(range(capcap, U + 1, 31 if quick else 7))
            for sz in ref["sizes"]:
                caps += [x for x in (sz - 1, sz, sz + 1) if x > 0]
        p2 = 1
        while p2 <= (1 << 20):
            caps.append(p2); p2 *= 2
        caps = sorted(set(caps))
        small = [sz for sz in ref["sizes"] if sz <= capcap]
        cover.append(dict(rule_set=label, buffer_sizes=ref["sizes"], capacities=len(caps), buffers_fully_swept=len(small), buffers_total=len(ref["sizes"])))
        for ch in yv.chunked(caps, 64):
            jobs.append((label, srcs, ext, ref, ch))
    yv.drop_worker(VAR)
    nruns = 0
    for (label, srcs, res) in yv.pmap(run_chunk, jobs, ck, prebuild=(VAR,)):
        for (c, sig, det) in res:
            nruns += 1
            ck.cov["evaluations"] += 1 + len(bufs)
            if sig:
                det = dict(det); det.update(rule_set=label, initial_capacity=c, sources=srcs)
                ck.violation(sig, det)
    ck.cov["distinct_nontrivial"] = nruns
    ck.cov["programs"] = len(sets)
    ck.cov["growth_coverage"] = cover[:60]
    ck.sample(dict(rule_set=cover[0]["rule_set"], buffer_sizes=cover[0]["buffer_sizes"], capacities_swept=cover[0]["capacities"]))
    ck.sample(dict(rule_set=cover[-1]["rule_set"], buffer_sizes=cover[-1]["buffer_sizes"], capacities_swept=cover[-1]["capacities"]))
    ck.cov["rule"] = ("a case = (rule set, initial capacity c): compile with the hook, save, scan 12 buffers; all c in 1..min(U,%d) (U = largest final buffer size of "
                      "that rule set) + strided/boundary capacities beyond + powers of two to 1 MiB, for %d rule sets (each construct of the C08 list alone + pairs); "
                      "every case is distinct and non-trivial (a different growth schedule)" % (capcap, len(sets)))
    ck.assumptions += ["YARA_VERIF hook in yr_compiler_create (initial arena buffer size)", "ASan realloc always moves: a stale pointer is a use-after-free report"]
    ck.finish()


if __name__ == "__main__":
    main()
