#!/usr/bin/env python3
"""C20 - external variables are typed, scoped and isolated.
Explicit-state BFS over histories of define / scanner-create / scan / destroy operations.  The state is the
3-level environment model ref_env (compile map, rules map, per-scanner snapshot+overrides); every transition is
executed on fresh real objects by history replay and every step's return code / probe verdicts are compared."""
import json, os, sys
sys.path.insert(0, os.path.join(os.path.dirname(os.path.abspath(__file__)), "..", "lib"))
import yv

INVALID_ARG, BAD_TYPE, DUP = 29, 48, 56
# declaration order matters for the table walks: a longer identifier is declared BEFORE the identifier that is its prefix (i_max before i, sx before s)
# `time` is also the name of a built-in module (not imported here): externals and modules share the scanner's object table
VARS = {"time": ("i", [7, 8]), "i_max": ("i", [10, 11]), "i": ("i", [1, 2, 3]), "sx": ("s", ["p", "q"]), "s": ("s", ["x", "yy-a-longer-value", "z"]), "f": ("f", [1.5, 2.5]), "b": ("b", [0, 1])}
UNKNOWN = [("nosuch", "i", 5), ("i_", "i", 5), ("i_maxx", "i", 5), ("", "i", 5)]      # unknown identifiers, also a proper prefix / an extension of a known one, and the empty name
# wrongly typed definitions: (var, api type, value)
WRONG = [("i", "s", "q"), ("s", "i", 7), ("f", "i", 7), ("b", "s", "q")]
# the full matrix (variable of one type, API function of another) - every rejected definition must leave the variable as it was, at both levels
_WV = {"i": 7, "s": "q", "f": 9.25, "b": 1}
WRONG_ALL = [(v, t, _WV[t]) for v in ("i", "s", "f", "b") for t in ("f", "i", "s", "b") if t != VARS[v][0]]
WRONG_SC = [w for w in WRONG_ALL if w not in WRONG][::2]


def probes():
    out = []
    for v, (t, vals) in VARS.items():
        for k, val in enumerate(vals):
            if t == "i": c = "%s == %d" % (v, val)
            elif t == "s": c = '%s == "%s" and %s contains "%s" and %s endswith "%s"' % (v, val, v, val, v, val[-1])
            elif t == "f": c = "f == %s" % val
            else: c = "b" if val else "not b"
            out.append(("%s_%d" % (v, k), v, val, c))
    return out

def probes_more():
    """conditions that USE the integer variable as an operand of string operators (offsets, ranges, counts, loop bounds) - the scanned data is "abc": each is true
    for exactly one value of the variable"""
    S = 'strings: $a = "bc" '
    return [("i_at_1", "i", 1, S, "$a at 0 or $a at i"), ("i_at_1b", "i", 1, S, "$a at i or $a at 0"), ("i_in_2", "i", 2, 'strings: $a = "c" ', "$a in (i..i)"),
            ("i_of_3", "i", 3, 'strings: $a = "a" $b = "b" $c = "c" ', "i of them and not 4 of them and i == 3"), ("i_loop_2", "i", 2, "", "for i j in (1..3) : (j > 1) and i == 2"),
            ("i_rd_1", "i", 1, "", "uint8(i) == 0x62"), ("imax_cnt", "i_max", 11, S, "#a in (0..i_max) == 1 and i_max == 11"),
            ("i_neg_at", "i", 1, S, "$a at -i + 2"), ("i_neg_in", "i", 2, 'strings: $a = "c" ', "$a in (-i + 4..-i + 4)"), ("i_neg_of", "i", 3, 'strings: $a = "a" $b = "b" $c = "c" ', "(-i + 6) of them and i == 3"),
            ("i_neg_rd", "i", 2, "", "uint8(-i + 4) == 0x63"), ("i_not_at", "i", 1, S, "$a at ~i + 3"), ("i_neg2_at", "i", 1, S, "$a at -(-i)"),
            ("imax_of0", "i_max", 10, 'strings: $z = "zzz" ', "(i_max - 10) of ($z)"), ("imax_of0b", "i_max", 10, 'strings: $z = "zzz" $y = "yyy" ', "(i_max - 10) of them in (0..2)")]

PROBES = probes()
MORE = probes_more()
RULES = "\n".join("rule %s { condition: %s }" % (n, c) for (n, v, val, c) in PROBES) + "\n" + "\n".join("rule %s { %scondition: %s }" % (n, st, c) for (n, v, val, st, c) in MORE)
PROBES = PROBES + [(n, v, val, c) for (n, v, val, st, c) in MORE]


def fmt(t, val):
    if val is None: return "NULL"
    return yv.hx(val) if t == "s" else str(val)


def ops_for(state):
    """enabled operations in a model state"""
    ops = []
    for v, (t, vals) in VARS.items():
        for val in vals[1:]:
            ops.append(("defr", v, t, val))
    for u in UNKNOWN[:3]:
        ops.append(("defr",) + u)
    ops.append(("defr", "s", "s", None))
    for w in WRONG_ALL:
        ops.append(("defr",) + w)
    ops.append(("scanr",))
    for j in (0, 1):
        if state["sc"][j] is None:
            ops.append(("new", j))
        else:
            for v, (t, vals) in VARS.items():
                for val in vals[1:]:
                    ops.append(("defs", j, v, t, val))
            ops.append(("defs", j, "nosuch", "s", "q")); ops.append(("defs", j, "i_", "i", 5))
            for w in WRONG + WRONG_SC:
                ops.append(("defs", j) + w)
            ops.append(("scan", j))
            ops.append(("del", j))
    return ops


def init_state():
    return dict(R={v: vals[0] for v, (t, vals) in VARS.items()}, sc=[None, None])


def step(state, op):
    """returns (new_state, expected) ; expected = ('rc', n) or ('env', {var:value})"""
    s = json.loads(json.dumps(state))
    k = op[0]
    if k == "defr":
        _, v, t, val = op
        if v not in VARS or val is None: return s, ("rc", INVALID_ARG)
        if VARS[v][0] != t: return s, ("rc", BAD_TYPE)
        s["R"][v] = val
        return s, ("rc", 0)
    if k == "scanr":
        return s, ("env", dict(s["R"]))
    if k == "new":
        s["sc"][op[1]] = dict(snap=dict(s["R"]), over={})
        return s, ("rc", 0)
    if k == "defs":
        _, j, v, t, val = op
        if v not in VARS: return s, ("rc", INVALID_ARG)
        if VARS[v][0] != t: return s, ("rc", BAD_TYPE)
        s["sc"][j]["over"][v] = val
        return s, ("rc", 0)
    if k == "scan":
        sc = s["sc"][op[1]]
        env = dict(sc["snap"]); env.update(sc["over"])
        return s, ("env", env)
    if k == "del":
        s["sc"][op[1]] = None
        return s, ("rc", 0)
    raise ValueError(op)


def canon(s):
    # a scanner's effective environment is all that its future can depend on
    def eff(sc):
        if sc is None: return None
        e = dict(sc["snap"]); e.update(sc["over"]); return e
    return json.dumps([s["R"], eff(s["sc"][0]), eff(s["sc"][1])], sort_keys=True)


def cmd_of(op):
    k = op[0]
    if k == "defr": return "defr 0 %s %s %s" % (op[1], op[2], fmt(op[2], op[3]))
    if k == "scanr": return "scan target=r0 via=mem ml=0 flags=8 data=" + yv.hx(b"abc")
    if k == "new": return "scanner %d 0" % op[1]
    if k == "defs": return "defs %d %s %s %s" % (op[1], op[2], op[3], fmt(op[3], op[4]))
    if k == "scan": return "scan target=s%d via=mem ml=0 flags=8 data=%s" % (op[1], yv.hx(b"abc"))
    if k == "del": return "sdestroy %d" % op[1]


def want_env(env):
    return {v: [pval for (n, pv, pval, c) in PROBES if pv == v and pval == val] for v, val in env.items()}


def observed_env(reply):
    got = {}
    for m in reply["t"]:
        if m[0] == "m":
            name = m[1].split(":")[1]
            for (n, v, val, c) in PROBES:
                if n == name:
                    got.setdefault(v, []).append(val)
    return got


def run_chunk(arg):
    mode, chunk = arg
    w = yv.get_worker("plain")
    out = []
    for (hist, op) in chunk:
        pre = ["reset"]
        if mode == "compile":
            pre += ["compiler 0"] + ["defc 0 %s %s %s" % (v, t, fmt(t, vals[0])) for v, (t, vals) in VARS.items()]
            pre += ["add 0 - " + yv.hx(RULES), "getrules 0 0", "cdestroy 0"]
        else:
            pre += ["load 0 0"]
        ops = hist + [op]
        # observation suffix: the state reached by every transition is read back completely (rules-level scan and a scan on
        # each live scanner), so that histories merged into one model state are still each observed on the implementation
        st0 = init_state()
        for o in ops:
            st0, _ = step(st0, o)
        ops = ops + [("scanr",)] + [("scan", j) for j in (0, 1) if st0["sc"][j] is not None]
        try:
            rep = w.batch(pre + [cmd_of(o) for o in ops] + ["reset", "live"])
        except (yv.WorkerDied, yv.WorkerHang) as e:
            err = getattr(e, "err", "")
            yv.drop_worker("plain"); w = yv.get_worker("plain")
            kind = "assert" if "Assertion" in err else "signal"
            on = (getattr(e, "cmd", "") .split() or ["?"])[0]
            nscans = sum(1 for o in ops if o[0] in ("scan", "scanr"))
            bad = ("C20:crash:%s:on=%s:%s" % (kind, on, "second-or-later-scan" if nscans > 1 else "first-scan"), dict(error=str(e)[:300], stderr=err[-1200:]))
            bad[1]["history"] = [list(o) for o in ops]; bad[1]["commands"] = pre + [cmd_of(o) for o in ops]
            out.append((bad, len(ops))); continue
        body = rep[len(pre):len(pre) + len(ops)]
        st = init_state()
        bad = None
        for o, r in zip(ops, body):
            st, exp = step(st, o)
            if exp[0] == "rc":
                if r.get("rc") != exp[1]:
                    bad = ("C20:rc:%s:%s" % (o[0], "invalid" if exp[1] else "valid"), dict(op=o, expected_rc=exp[1], observed=r))
                    break
            else:
                got = observed_env(r)
                want = want_env(exp[1])
                if r.get("rc") != 0 or got != want:
                    wrong = sorted(v for v in VARS if got.get(v) != want.get(v))
                    bad = ("C20:value:%s:var=%s" % (o[0], ",".join(wrong)), dict(op=o, expected=want, observed=got, rc=r.get("rc")))
                    break
        if bad is None and rep[-1]["live"] != base_live(w, mode):
            bad = ("C20:leak", dict(live=rep[-1]["live"]))
        out.append((bad, len(ops)))
        if bad:
            bad[1]["history"] = [list(o) for o in ops]
            bad[1]["commands"] = pre + [cmd_of(o) for o in ops]
    return out


_base = {}
def base_live(w, mode):
    # live allocations after 'reset' that belong to the worker's persistent state (initialisation only)
    k = (id(w), mode)
    if k not in _base:
        _base[k] = w.batch(["reset", "live"])[1]["live"]
    return _base[k]


def prepare_blob(w):
    pre = ["reset", "compiler 0"] + ["defc 0 %s %s %s" % (v, t, fmt(t, vals[0])) for v, (t, vals) in VARS.items()]
    pre += ["add 0 - " + yv.hx(RULES), "getrules 0 0", "cdestroy 0", "save 0 0", "reset"]
    return w.batch(pre)


def compile_phase(ck):
    """compile-time defines: every sequence of <=3 defc operations before add (duplicates must be rejected and change
    nothing), checked through a rules-level scan"""
    import itertools
    w = yv.get_worker("plain")
    alpha = []
    for v, (t, vals) in VARS.items():
        for val in vals[:2]:
            alpha.append((v, t, val))
    alpha += [("s", "s", None), ("sx", "s", None)]          # NULL value: documented as ERROR_INVALID_ARGUMENT, must change nothing
    n = 0
    for L in (1, 2, 3):
        for seq in itertools.product(alpha, repeat=L):
            env, cmds, exps = {}, ["reset", "compiler 0"], []
            for (v, t, val) in seq:
                cmds.append("defc 0 %s %s %s" % (v, t, fmt(t, val)))
                if val is None: exps.append((INVALID_ARG, DUP) if v in env else (INVALID_ARG,))      # which of the two applicable errors wins is not specified
                elif v in env: exps.append((DUP,))
                else: env[v] = val; exps.append((0,))
            # remaining variables must be defined for the probe rules to compile
            for v, (t, vals) in VARS.items():
                if v not in env:
                    cmds.append("defc 0 %s %s %s" % (v, t, fmt(t, vals[0]))); env[v] = vals[0]; exps.append((0,))
            cmds += ["add 0 - " + yv.hx(RULES), "getrules 0 0", "scanner 0 0", "scan target=s0 via=mem ml=0 flags=8 data=616263", "scan target=r0 via=mem ml=0 flags=8 data=616263"]
            try:
                rep = w.batch(cmds)
            except (yv.WorkerDied, yv.WorkerHang) as e:
                yv.drop_worker("plain"); w = yv.get_worker("plain")
                ck.violation("C20:crash:after-compile-time-defines:on=%s" % (e.cmd.split() or ["?"])[0], dict(seq=[list(x) for x in seq], commands=cmds, error=str(e), stderr=getattr(e, "err", "")[-1500:]))
                continue
            rcs = [r["rc"] for r in rep[2:2 + len(exps)]]
            n += 1
            ck.cov["evaluations"] += 1
            if len(rcs) != len(exps) or any(r not in e for r, e in zip(rcs, exps)):
                ck.violation("C20:rc:defc", dict(seq=seq, expected=exps, observed=rcs, commands=cmds))
                continue
            got = observed_env(rep[-1])
            if observed_env(rep[-2]) != got:
                ck.violation("C20:value:defc:scanner-differs-from-rules-level", dict(seq=seq, scanner=observed_env(rep[-2]), rules_level=got, commands=cmds)); continue
            if got != want_env(env):
                ck.violation("C20:value:defc", dict(seq=seq, expected=env, observed=got, commands=cmds))
    ck.sub("compile-time-defines", sequences=n, exhaustive=True)


def literal_equivalence(ck):
    """'integer, float, boolean and string externals behave in conditions like literals of the same type': every operator table of
    C04's sub-space 1 with each operand replaced by an external variable holding that value, evaluated by the reference evaluator"""
    sys.path.insert(0, os.path.dirname(os.path.abspath(__file__)))
    from refcond import Bin, Un, Int, Flt, Str, Raw, Ctx, UNDEF, verdict
    I63 = (1 << 63) - 1
    IV = [0, 1, 2, 3, -1, 63, 64, 255, I63, -I63, -(1 << 63)]
    FV = [0.0, 1.5, -1.5]
    SV = [b"", b"a", b"A", b"ab", b"b"]
    BV = [0, 1]
    defs = [("xi%d" % i, "i", v) for i, v in enumerate(IV)] + [("xf%d" % i, "f", v) for i, v in enumerate(FV)] + [("xs%d" % i, "s", v) for i, v in enumerate(SV)] + [("xb%d" % i, "b", v) for i, v in enumerate(BV)]
    def ext(name, val): return Raw(name, lambda c, val=val: val)
    conds = []
    for op in ("+", "-", "*", "\\", "%", "&", "|", "^", "<<", ">>", "==", "!=", "<", "<=", ">", ">="):
        for i, x in enumerate(IV):
            for j, y in enumerate(IV):
                e = Bin(op, ext("xi%d" % i, x), ext("xi%d" % j, y))
                if op in ("==", "!=", "<", "<=", ">", ">="): conds.append(e)
                else:
                    ref = e.ev(Ctx())
                    conds.append(Un("defined", e) if ref is UNDEF else Bin("==", e, Int(ref)))
    for op in ("+", "-", "*", "==", "!=", "<", "<=", ">", ">="):
        for i, x in enumerate(FV):
            for j, y in enumerate(FV):
                e = Bin(op, ext("xf%d" % i, x), ext("xf%d" % j, y))
                conds.append(e if op in ("==", "!=", "<", "<=", ">", ">=") else Bin("==", e, Flt(e.ev(Ctx()))))
            for j, y in enumerate(IV[:5]):
                e = Bin(op, ext("xf%d" % i, x), ext("xi%d" % j, y))
                conds.append(e if op in ("==", "!=", "<", "<=", ">", ">=") else Bin("==", e, Flt(e.ev(Ctx()))))
    for op in ("==", "!=", "<", "<=", ">", ">=", "contains", "icontains", "startswith", "istartswith", "endswith", "iendswith", "iequals"):
        for i, x in enumerate(SV):
            for j, y in enumerate(SV):
                conds.append(Bin(op, ext("xs%d" % i, x), ext("xs%d" % j, y)))
                conds.append(Bin(op, ext("xs%d" % i, x), Str(y)))
    for i, x in enumerate(BV):
        b = ext("xb%d" % i, bool(x))
        conds += [b, Un("not", b), Un("defined", b)]
        for j, y in enumerate(BV):
            c2 = ext("xb%d" % j, bool(y))
            conds += [Bin("and", b, c2), Bin("or", b, Un("not", c2))]
    w = yv.get_worker("plain")
    n = bad = 0
    for ch in yv.chunked(list(enumerate(conds)), 150):
        text = "\n".join("rule l%d { condition: %s }" % (k, e.s()) for k, e in ch)
        cmds = ["reset", "compiler 0"] + ["defc 0 %s %s %s" % (nm, t, yv.hx(v) if t == "s" else v) for (nm, t, v) in defs] + ["add 0 - " + yv.hx(text), "getrules 0 0", "cdestroy 0", "scan target=r0 via=mem ml=0 data=" + yv.hx(b"abc")]
        rep = w.batch(cmds)
        add = [r for r in rep if "errors" in r][0]
        if add["errors"]:
            ck.violation("C20:literal-equivalence:rejected", dict(messages=add["msgs"][:3])); continue
        got = {m[1].split(":")[1]: m[0] == "m" for m in rep[-1]["t"] if m[0] in ("m", "n")}
        for k, e in ch:
            n += 1
            exp = verdict(e, Ctx())
            if got.get("l%d" % k) != exp:
                bad += 1
                ck.violation("C20:literal-equivalence:%s" % (e.op if hasattr(e, "op") else "bool"), dict(condition=e.s(), expected=exp, observed=got.get("l%d" % k), externals=[d for d in defs if d[0] in e.s()]))
    ck.sub("literal-equivalence", conditions=n, externals=len(defs))
    ck.cov["evaluations"] += n
    yv.drop_worker("plain")
    return n


def main():
    ck = yv.Check("C20", "model_checking", deadlines=(480, 3300))
    depth = 5 if ck.tier == "quick" else 7
    modes = ["compile"] if ck.tier == "quick" else ["compile", "load"]
    compile_phase(ck)
    literal_equivalence(ck)
    total_states = total_trans = 0
    for mode in modes:
        seen = {canon(init_state()): []}
        frontier = [([], init_state())]
        for d in range(depth):
            work, meta = [], []
            for hist, st in frontier:
                for op in ops_for(st):
                    work.append((hist, op)); meta.append((hist, st, op))
            results = []
            if mode == "load":
                # every pool process needs the blob: prepare lazily inside run_chunk via initializer below
                pass
            chunks = list(yv.chunked(work, 64))
            fn = run_chunk_load if mode == "load" else run_chunk
            flat = []
            for res in yv.pmap_ordered(fn, [(mode, c) for c in chunks], ck):
                flat.extend(res)
            nxt = []
            for (hist, st, op), (bad, n) in zip(meta, flat):
                total_trans += 1
                ck.cov["evaluations"] += 1
                if bad:
                    ck.violation(bad[0], bad[1])
                    continue
                st2, _ = step(st, op)
                k = canon(st2)
                if k not in seen:
                    seen[k] = hist + [op]
                    nxt.append((hist + [op], st2))
            if len(flat) < len(meta):
                ck.cov["exhaustive"] = False
                break
            frontier = nxt
            ck.sub("bfs-" + mode, depth_completed=d + 1, states=len(seen))
        total_states += len(seen)
        hs = [h for h in seen.values() if len(h) == depth - 1][:2]
        for h in hs:
            ck.sample(dict(mode=mode, history=[list(o) for o in h]))
    ck.cov["states"] = total_states
    ck.cov["transitions"] = total_trans
    ck.cov["traces_validated_against_impl"] = total_trans
    ck.cov["distinct_nontrivial"] = total_states
    ck.cov["rule"] = ("BFS over histories of {defr, new, defs, scan, scan-rules-level, destroy} with valid, unknown-identifier and "
                      "wrongly-typed definitions of 4 typed variables on 2 scanners; states = distinct ref_env states (rules map + "
                      "effective environment of each scanner); every transition is a model trace executed on the real objects "
                      "(history replay on fresh objects) with rc and probe-rule verdicts compared at every step; plus all "
                      "compile-time define sequences of length <=3")
    ck.assumptions += ["int<->bool definitions at scanner level share one object type in libyara and are not generated as 'wrong type'",
                       "canonical state merges scanner snapshot+overrides into the effective environment (same futures: later rules-level "
                       "defines are never visible to an existing scanner in the model)"]
    ck.finish()


def run_chunk_load(arg):
    w = yv.get_worker("plain")
    if not getattr(w, "_c20blob", False):
        prepare_blob(w); w._c20blob = True
    return run_chunk(arg)


if __name__ == "__main__":
    main()
