/* dumps the byte arrays of /repo/tests/blob.h into files: blobs <outdir> */
#include <stdint.h>
#include <stdio.h>
#include "blob.h"
#define D(x) do { char p[600]; snprintf(p, sizeof p, "%s/" #x ".bin", argv[1]); FILE* f = fopen(p, "wb"); fwrite(x, 1, sizeof(x), f); fclose(f); } while (0)
int main(int argc, char** argv) {
  D(PE32_FILE); D(ELF32_FILE); D(ELF64_FILE); D(ELF32_NOSECTIONS); D(ELF32_SHAREDOBJ); D(MACHO_X86_FILE); D(MACHO_PPC_FILE);
  D(MACHO_X86_OBJECT_FILE); D(MACHO_X86_64_DYLIB_FILE); D(DEX_FILE); D(ISSUE_1006); D(ELF32_MIPS_FILE); D(ELF_x64_FILE);
  return 0;
}
