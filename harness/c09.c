/* c09: schedule-exploration driver for "concurrent scans sharing one rule set".
 * Server: one line per execution on stdin:   RUN <scenario> <schedule csv or ->      reply: one JSON line.
 * Each execution runs in a forked child (the rule set is compiled once, before forking). */
#include <yara.h>
#include <yara/globals.h>
#include <sys/wait.h>
#include <unistd.h>
#include <fcntl.h>
#include "yvsched.h"
#include "yvcommon.h"

extern int exception_handler_usecount;

static YR_RULES* rules;
static const char* RULES =
    "import \"tests\" import \"math\" import \"hash\" import \"console\"\n"
    "rule abcd { strings: $a = \"abcd\" condition: $a }\n"
    "rule count2 { strings: $a = \"ab\" condition: #a == 2 }\n"
    "rule re { strings: $r = /ab+c?d/ condition: $r }\n"
    "rule ext_v1 { condition: ext == \"v1\" }\n"
    "rule ext_m { condition: ext matches /^v[0-9]$/ }\n"
    "rule loop { condition: for all i in (0..3) : (console.log(\"i=\", i) and i >= 0) }\n"
    "rule loop2 { condition: for any i in (0..2) : (for any j in (0..2) : (console.log(\"ij=\", i * 3 + j) and i + j == 4)) }\n"
    "rule ent { condition: math.entropy(0, filesize) > 2.0 }\n"
    "rule md5len { condition: hash.md5(0, filesize) != \"\" and tests.constants.one == 1 }\n"
    "rule fs { condition: filesize > 12 }\n"
    "rule many { strings: $q = \"q\" condition: #q > 2 }\n"
    "rule logs { condition: console.log(filesize) and console.hex(filesize) and console.log(ext) and console.log(1.5 * filesize) and console.log(\"f=\", 0.5 * filesize) and console.hex(\"x=\", filesize) and console.log(\"e=\", ext) }\n"
    "rule md5v { condition: console.log(\"md5=\", hash.md5(0, filesize)) and console.log(\"sha=\", hash.sha1(1, 4)) }\n";

static const char* BUFS[6] = {"xx abcd ab abbbcd", "abababab-no-d", "abcdabcdabcd abcd", "zz", "qqqqqqqqqqqq", "xx q q q zz"};   /* 4: exceeds the per-string match limit of the scaled build (8) */
static const char* EXTS[4] = {"v1", "w", "v2", "v1"};

typedef struct { OB trace; int rc; int nmsg; int nrule; int abort_at; int error_at; } TCTX;   /* abort_at / error_at: index of the RULE message answered with abort / error */
static TCTX tc[YV_MAXT], solo[YV_MAXT];
static int nthreads, rules_level, scenario_abort;
static int flags_sel[YV_MAXT];   /* scanner flags a thread sets on ITS scanner before scanning ("fast": thread 0 scans in fast mode, thread 1 must not notice) */
static int bufsel[YV_MAXT];   /* which buffer a thread scans ("same-size": two different buffers of equal length, so that per-scan caches keyed by offset and length collide) */
static OB viol;
static void* H0;

static void app_handler(int sig, siginfo_t* si, void* ctx) { (void) sig; (void) si; (void) ctx; }

static void add_viol(const char* what) {
  if (viol.n > 3000 || (viol.p && strstr(viol.p, what))) return;
  if (viol.n) ob_putc(&viol, ',');
  ob_jstr(&viol, what, -1);
}

static int cb(YR_SCAN_CONTEXT* ctx, int msg, void* data, void* ud) {
  TCTX* t = (TCTX*) ud; char b[64];
  if (t->trace.n) ob_putc(&t->trace, ';');
  switch (msg) {
  case CALLBACK_MSG_RULE_MATCHING: case CALLBACK_MSG_RULE_NOT_MATCHING: {
    YR_RULE* r = (YR_RULE*) data; YR_STRING* s; YR_MATCH* m;
    ob_puts(&t->trace, msg == CALLBACK_MSG_RULE_MATCHING ? "m:" : "n:"); ob_puts(&t->trace, r->identifier);
    yr_rule_strings_foreach(r, s) { yr_string_matches_foreach(ctx, s, m) { snprintf(b, sizeof b, "@%lld/%d/%d:%02x", (long long)(m->base + m->offset), m->match_length, m->data_length, m->data_length > 0 && m->data ? m->data[0] : 0); ob_puts(&t->trace, b); } }
    break; }
  case CALLBACK_MSG_IMPORT_MODULE: ob_puts(&t->trace, "imp:"); ob_puts(&t->trace, ((YR_MODULE_IMPORT*) data)->module_name); break;
  case CALLBACK_MSG_MODULE_IMPORTED: ob_puts(&t->trace, "imd:"); ob_puts(&t->trace, ((YR_OBJECT*) data)->identifier); break;
  case CALLBACK_MSG_CONSOLE_LOG: ob_puts(&t->trace, "log:"); ob_puts(&t->trace, (const char*) data); break;
  case CALLBACK_MSG_SCAN_FINISHED: ob_puts(&t->trace, "fin"); break;
  default: snprintf(b, sizeof b, "msg%d", msg); ob_puts(&t->trace, b); break;
  }
  t->nmsg++;
  int k = (msg == CALLBACK_MSG_RULE_MATCHING || msg == CALLBACK_MSG_RULE_NOT_MATCHING) ? t->nrule++ : -100;
  char seen[96]; seen[0] = 0;
  if (msg == CALLBACK_MSG_CONSOLE_LOG) { strncpy(seen, (const char*) data, sizeof seen - 1); seen[sizeof seen - 1] = 0; }
  yv_point("cb");
  /* the message belongs to this callback invocation until it returns: whatever the other threads did meanwhile, it must read the same */
  if (msg == CALLBACK_MSG_CONSOLE_LOG && strncmp(seen, (const char*) data, sizeof seen - 1) != 0) add_viol("console-message-changed-while-its-callback-ran");
  if (k == t->abort_at) return CALLBACK_ABORT;
  if (k == t->error_at) return CALLBACK_ERROR;
  return CALLBACK_CONTINUE;
}

static int scenario_files; static char fpath[2][640]; static const char* g_tmp = "/tmp";
static void body(int t, TCTX* c) {
  YR_SCANNER* sc = NULL;
  const char* buf = BUFS[bufsel[t]];
  if (scenario_files) {
    /* descriptors are process-wide: thread 0 scans a file by path, thread 1 opens its own file and scans it twice through the descriptor */
    int fd = -1;
    if (t == 1) { yv_point("api:open"); fd = open(fpath[1], O_RDONLY); }
    yv_point("api:create");
    if (yr_scanner_create(rules, &sc) != ERROR_SUCCESS) { c->rc = -1; return; }
    yr_scanner_set_callback(sc, cb, c);
    yr_scanner_define_string_variable(sc, "ext", EXTS[t % 4]);
    yv_point("api:scan");
    if (t == 0) c->rc = yr_scanner_scan_file(sc, fpath[0]);
    else {
      int rc1 = yr_scanner_scan_fd(sc, fd);
      yv_point("api:between");
      int rc2 = yr_scanner_scan_fd(sc, fd);
      char b[64]; snprintf(b, sizeof b, ";rc1=%d,rc2=%d", rc1, rc2); ob_puts(&c->trace, b);
      c->rc = rc2;
      yv_point("api:close"); close(fd);
    }
    yv_point("api:destroy");
    yr_scanner_destroy(sc);
    return;
  }
  if (rules_level && t == 0) {
    yv_point("api:rules_scan");
    c->rc = yr_rules_scan_mem(rules, (const uint8_t*) buf, strlen(buf), 0, cb, c, 0);
    return;
  }
  yv_point("api:create");
  if (yr_scanner_create(rules, &sc) != ERROR_SUCCESS) { c->rc = -1; return; }
  yr_scanner_set_callback(sc, cb, c);
  if (flags_sel[t]) { yr_scanner_set_flags(sc, flags_sel[t]); yr_scanner_set_timeout(sc, 1000); }
  yv_point("api:define");
  yr_scanner_define_string_variable(sc, "ext", EXTS[t % 4]);
  yv_point("api:scan");
  c->rc = yr_scanner_scan_mem(sc, (const uint8_t*) buf, strlen(buf));
  yv_point("api:destroy");
  yr_scanner_destroy(sc);
}

static void* thread_main(void* arg) {
  int t = (int)(intptr_t) arg;
  yv_thread_begin(t);
  body(t, &tc[t]);
  yv_thread_end();
  return NULL;
}

static uint64_t extra_hash(void) {
  uint64_t h = (uint64_t) exception_handler_usecount * 1315423911u;
  h ^= (yv_installed_handler == H0) ? 0x9e37 : 0x1234567;
  h ^= (yv_last_saved_old == NULL ? 1 : yv_last_saved_old == H0 ? 2 : 3) * 0x85ebca6b;
  for (int t = 0; t < nthreads; t++) { h = h * 1099511628211ULL + tc[t].trace.n; h = h * 1099511628211ULL + (uint64_t) tc[t].nmsg; }
  return h;
}

static void invariants(const char* label) {
  (void) label;
  if (!yv_mutex_held()) {
    int inside = 0;
    for (int t = 0; t < nthreads; t++) inside += yv_unlocks(t) & 1;
    if (exception_handler_usecount != inside) add_viol("usecount-differs-from-threads-inside-try");
    if (inside > 0 && yv_installed_handler == H0) add_viol("application-handler-installed-while-a-thread-is-inside-try");
    if (inside == 0 && yv_installed_handler != H0) add_viol("yara-handler-left-installed-with-no-thread-inside-try");
  }
  if (yv_last_saved_old != NULL && yv_last_saved_old != H0) add_viol("saved-old-handler-is-not-the-applications-handler");
}

static void setup_scenario(const char* name) {
  nthreads = 2; rules_level = 0; scenario_abort = 0; scenario_files = 0;
  for (int t = 0; t < YV_MAXT; t++) { memset(&tc[t], 0, sizeof tc[t]); memset(&solo[t], 0, sizeof solo[t]); tc[t].abort_at = tc[t].error_at = solo[t].abort_at = solo[t].error_at = -1; }
  for (int t = 0; t < YV_MAXT; t++) { bufsel[t] = t % 4; flags_sel[t] = 0; }
  if (!strcmp(name, "two")) { }
  else if (!strcmp(name, "same-size")) { bufsel[1] = 2; }
  else if (!strcmp(name, "files")) {
    scenario_files = 1;
    for (int t = 0; t < 2; t++) { snprintf(fpath[t], sizeof fpath[t], "%s/c09_file_%d_%d.bin", g_tmp, (int) getpid(), t); FILE* f = fopen(fpath[t], "wb"); if (f) { fputs(BUFS[bufsel[t]], f); fclose(f); } }
  }
  else if (!strcmp(name, "tmm")) { bufsel[0] = 4; bufsel[1] = 5; }   /* thread 0 hits the match limit of $q (answers CONTINUE) while thread 1 needs every match of $q */
  else if (!strcmp(name, "fast")) { flags_sel[0] = SCAN_FLAGS_FAST_MODE; bufsel[0] = 2; bufsel[1] = 0; }
  else if (!strcmp(name, "three")) nthreads = 3;
  else if (!strcmp(name, "abort")) { tc[1].abort_at = solo[1].abort_at = 2; }
  else if (!strcmp(name, "error")) { tc[0].error_at = solo[0].error_at = 1; }
  else if (!strcmp(name, "rules-level")) rules_level = 1;
}

static void run_child(const char* scenario, int* sched, int ns) {
  struct sigaction act, q; memset(&act, 0, sizeof act);
  act.sa_sigaction = app_handler; act.sa_flags = SA_SIGINFO; sigaction(SIGBUS, &act, NULL);
  H0 = (void*) app_handler; yv_installed_handler = H0; yv_last_saved_old = NULL;
  setup_scenario(scenario);
  /* solo runs first (pass-through mode) */
  yv_active = 0;
  for (int t = 0; t < nthreads; t++) body(t, &solo[t]);
  yv_installed_handler = H0; yv_last_saved_old = NULL;
  yv_sched_reset(nthreads, sched, ns);
  yv_sched_set_hash_fn(extra_hash);
  yv_sched_set_invariant_fn(invariants);
  pthread_t th[YV_MAXT];
  for (int t = 0; t < nthreads; t++) pthread_create(&th[t], NULL, thread_main, (void*)(intptr_t) t);
  yv_controller_start();
  yv_controller_wait();
  if (!yv_deadlock) for (int t = 0; t < nthreads; t++) pthread_join(th[t], NULL);
  yv_active = 0;
  if (!yv_deadlock) {
    sigaction(SIGBUS, NULL, &q);
    if (exception_handler_usecount != 0) add_viol("usecount-not-zero-at-quiescence");
    if ((void*) q.sa_sigaction != H0) add_viol("application-handler-not-restored-at-quiescence");
    for (int t = 0; t < nthreads; t++)
      if (tc[t].rc != solo[t].rc || tc[t].trace.n != solo[t].trace.n || (tc[t].trace.n && memcmp(tc[t].trace.p, solo[t].trace.p, tc[t].trace.n))) add_viol("thread-trace-differs-from-solo-trace");
  }
  OB o = {0};
  ob_puts(&o, "{\"points\":[");
  for (int i = 0; i < yv_nlog; i++) {
    char b[128]; snprintf(b, sizeof b, "%s[%d,%u,%d,\"%s\",\"%llx\"]", i ? "," : "", yv_log[i].tid, yv_log[i].enabled, yv_log[i].chosen, yv_log[i].label, (unsigned long long) yv_log[i].hash);
    ob_puts(&o, b);
  }
  ob_puts(&o, "],\"deadlock\":"); ob_int(&o, yv_deadlock); ob_puts(&o, ",\"diverged\":"); ob_int(&o, yv_diverged);
  ob_puts(&o, ",\"viol\":["); if (viol.n) ob_puts(&o, viol.p); ob_puts(&o, "],\"traces\":[");
  for (int t = 0; t < nthreads; t++) { if (t) ob_putc(&o, ','); ob_jstr(&o, tc[t].trace.p ? tc[t].trace.p : "", -1); }
  ob_puts(&o, "],\"solo\":[");
  for (int t = 0; t < nthreads; t++) { if (t) ob_putc(&o, ','); ob_jstr(&o, solo[t].trace.p ? solo[t].trace.p : "", -1); }
  ob_puts(&o, "],\"rcs\":[");
  for (int t = 0; t < nthreads; t++) { if (t) ob_putc(&o, ','); ob_int(&o, tc[t].rc); }
  ob_puts(&o, "]}\n");
  size_t off = 0; while (off < o.n) { ssize_t w = write(1, o.p + off, o.n - off); if (w <= 0) break; off += (size_t) w; }
  if (scenario_files) { unlink(fpath[0]); unlink(fpath[1]); }
  _exit(0);
}

int main(int argc, char** argv) {
  char* line = NULL; size_t cap = 0; ssize_t len;
  const char* tmp = argc > 1 ? argv[1] : "/tmp"; g_tmp = tmp;
  yr_initialize();
  YR_COMPILER* c; yr_compiler_create(&c);
  yr_compiler_define_string_variable(c, "ext", "v0");
  if (yr_compiler_add_string(c, RULES, NULL) != 0) { printf("{\"fatal\":\"rules do not compile\"}\n"); return 2; }
  yr_compiler_get_rules(c, &rules); yr_compiler_destroy(c);
  while ((len = getline(&line, &cap, stdin)) > 0) {
    while (len > 0 && (line[len - 1] == '\n' || line[len - 1] == '\r')) line[--len] = 0;
    char scen[64]; char* p = line;
    if (strncmp(p, "RUN ", 4)) { printf("{}\n"); fflush(stdout); continue; }
    p += 4; int k = 0; while (*p && *p != ' ' && k < 63) scen[k++] = *p++; scen[k] = 0; while (*p == ' ') p++;
    static int sched[YV_MAXPOINTS]; int ns = 0;
    while (*p && *p != '-' && ns < YV_MAXPOINTS) { sched[ns++] = (int) strtol(p, &p, 10); if (*p == ',') p++; }
    fflush(stdout);
    char errpath[600]; snprintf(errpath, sizeof errpath, "%s/c09_err_%d.txt", tmp, (int) getpid());
    pid_t pid = fork();
    if (pid == 0) {
      int fd = open(errpath, O_WRONLY | O_CREAT | O_TRUNC, 0600); if (fd >= 0) { dup2(fd, 2); close(fd); }
      alarm(60);
      run_child(scen, sched, ns);
      _exit(0);
    }
    int st = 0; waitpid(pid, &st, 0);
    if (!(WIFEXITED(st) && WEXITSTATUS(st) == 0)) {
      char eb[3000]; size_t n = 0; FILE* f = fopen(errpath, "rb"); if (f) { fseek(f, 0, SEEK_END); long sz = ftell(f); fseek(f, sz > 2900 ? sz - 2900 : 0, SEEK_SET); n = fread(eb, 1, 2900, f); fclose(f); }
      OB o = {0}; ob_puts(&o, "{\"crash\":"); ob_int(&o, WIFSIGNALED(st) ? WTERMSIG(st) : 1000 + WEXITSTATUS(st)); ob_puts(&o, ",\"stderr\":"); ob_jstr(&o, eb, (long) n); ob_puts(&o, "}\n");
      fputs(o.p, stdout); free(o.p);
    }
    fflush(stdout);
  }
  return 0;
}
