/* c09bus <threads> <rounds>: free-running threads sharing one YR_RULES; thread 0 scans a 2-page mapping of a file that has been
 * truncated to 1 page (SIGBUS inside yara's try block -> ERROR_COULD_NOT_MAP_FILE through the process-wide handler) while the
 * others scan ordinary buffers. Every result is compared with the solo result; afterwards the application's SIGBUS handler
 * must be installed again and the use count must be zero. Exit 3 = wrong result, 4 = handler state wrong. */
#include <yara.h>
#include <yara/globals.h>
#include <pthread.h>
#include <signal.h>
#include <sys/mman.h>
#include <fcntl.h>
#include <unistd.h>
#include "yvcommon.h"

extern int exception_handler_usecount;
static YR_RULES* rules;
static const char* RULES = "rule abcd { strings: $a = \"abcd\" condition: $a } rule fs { condition: filesize > 10 } rule re { strings: $r = /ab+c?d/ condition: $r }";
static const char* BUFS[3] = {"xx abcd ab abbbcd", "abababab-no-d", "zz"};
static int rounds, bad; static const uint8_t* mapping; static size_t maplen;
static char expected[3][256];
static void app_handler(int sig, siginfo_t* si, void* ctx) { (void) sig; (void) si; (void) ctx; _exit(9); }

static int cb(YR_SCAN_CONTEXT* ctx, int msg, void* data, void* ud) {
  OB* o = (OB*) ud;
  if (msg == CALLBACK_MSG_RULE_MATCHING || msg == CALLBACK_MSG_RULE_NOT_MATCHING) { ob_puts(o, msg == CALLBACK_MSG_RULE_MATCHING ? "m:" : "n:"); ob_puts(o, ((YR_RULE*) data)->identifier); ob_putc(o, ';'); }
  return CALLBACK_CONTINUE;
}
static void one(int k, char* out, size_t cap) {
  YR_SCANNER* sc; OB o = {0};
  yr_scanner_create(rules, &sc); yr_scanner_set_callback(sc, cb, &o);
  int rc = yr_scanner_scan_mem(sc, (const uint8_t*) BUFS[k % 3], strlen(BUFS[k % 3]));
  yr_scanner_destroy(sc);
  snprintf(out, cap, "%src=%d", o.p ? o.p : "", rc); free(o.p);
}
static void* tmain(void* arg) {
  int t = (int)(intptr_t) arg;
  for (int r = 0; r < rounds; r++) {
    if (t == 0) {
      YR_SCANNER* sc; OB o = {0};
      yr_scanner_create(rules, &sc); yr_scanner_set_callback(sc, cb, &o);
      int rc = yr_scanner_scan_mem(sc, mapping, maplen);
      yr_scanner_destroy(sc); free(o.p);
      if (rc != ERROR_COULD_NOT_MAP_FILE) { __sync_fetch_and_add(&bad, 1); if (bad < 3) printf("BUS thread: rc=%d, expected ERROR_COULD_NOT_MAP_FILE\n", rc); }
    } else {
      char got[256]; one(t + r, got, sizeof got);
      if (strcmp(got, expected[(t + r) % 3])) { __sync_fetch_and_add(&bad, 1); if (bad < 3) printf("MISMATCH thread %d: %s vs %s\n", t, got, expected[(t + r) % 3]); }
    }
  }
  return NULL;
}
int main(int argc, char** argv) {
  int T = argc > 1 ? atoi(argv[1]) : 4; rounds = argc > 2 ? atoi(argv[2]) : 200;
  const char* dir = argc > 3 ? argv[3] : "/tmp";
  yr_initialize();
  YR_COMPILER* c; yr_compiler_create(&c);
  if (yr_compiler_add_string(c, RULES, NULL)) return 2;
  yr_compiler_get_rules(c, &rules); yr_compiler_destroy(c);
  for (int k = 0; k < 3; k++) one(k, expected[k], sizeof expected[k]);
  char path[600]; snprintf(path, sizeof path, "%s/c09bus_%d.bin", dir, (int) getpid());
  long pg = sysconf(_SC_PAGESIZE); int fd = open(path, O_RDWR | O_CREAT | O_TRUNC, 0600);
  char* page = calloc(1, (size_t) pg); memset(page, 'x', (size_t) pg); if (write(fd, page, (size_t) pg) < 0 || write(fd, page, (size_t) pg) < 0) return 2;
  maplen = (size_t)(2 * pg); mapping = mmap(NULL, maplen, PROT_READ, MAP_SHARED, fd, 0);
  if (ftruncate(fd, pg) != 0) return 2;
  struct sigaction act, q; memset(&act, 0, sizeof act); act.sa_sigaction = app_handler; act.sa_flags = SA_SIGINFO; sigaction(SIGBUS, &act, NULL);
  pthread_t th[64];
  for (int t = 0; t < T && t < 64; t++) pthread_create(&th[t], NULL, tmain, (void*)(intptr_t) t);
  for (int t = 0; t < T && t < 64; t++) pthread_join(th[t], NULL);
  sigaction(SIGBUS, NULL, &q);
  int hs = ((void*) q.sa_sigaction != (void*) app_handler) || exception_handler_usecount != 0;
  unlink(path);
  printf("done threads=%d rounds=%d bad=%d handler_state_wrong=%d usecount=%d\n", T, rounds, bad, hs, exception_handler_usecount);
  return bad ? 3 : hs ? 4 : 0;
}
