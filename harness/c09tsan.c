/* c09tsan <threads> <rounds>: free-running threads sharing one YR_RULES; each compares every scan with its solo result.
 * Built with -fsanitize=thread; any ThreadSanitizer report goes to stderr. Exit 3 on a trace mismatch. */
#include <yara.h>
#include <pthread.h>
#include <sys/mman.h>
#include <fcntl.h>
#include <unistd.h>
#include "yvcommon.h"

static YR_RULES* rules;
static const char* RULES =
    "import \"tests\" import \"math\" import \"hash\" import \"console\" import \"pe\"\n"
    "rule abcd { strings: $a = \"abcd\" condition: $a }\n"
    "rule count2 { strings: $a = \"ab\" condition: #a == 2 }\n"
    "rule re { strings: $r = /ab+c?d/ condition: $r }\n"
    "rule ext_v1 { condition: ext == \"v1\" }\n"
    "rule ext_m { condition: ext matches /^v[0-9]$/ }\n"
    "rule loop { condition: for all i in (0..30) : (i >= 0 and for any j in (0..5) : (i + j >= 5 or true)) }\n"
    "rule ent { condition: math.entropy(0, filesize) > 2.0 }\n"
    "rule md5len { condition: hash.md5(0, filesize) != \"\" and tests.constants.one == 1 }\n"
    "rule ispe { condition: pe.number_of_sections > 0 }\n";
static const char* BUFS[4] = {"xx abcd ab abbbcd", "abababab-no-d", "abcdabcdabcd abcd", "zz"};
static const char* EXTS[4] = {"v1", "w", "v2", "v1"};
static int rounds; static int mismatches;
static char expected[4][4096];

typedef struct { OB t; } CTX;
static int cb(YR_SCAN_CONTEXT* ctx, int msg, void* data, void* ud) {
  CTX* c = (CTX*) ud;
  if (msg == CALLBACK_MSG_RULE_MATCHING || msg == CALLBACK_MSG_RULE_NOT_MATCHING) { ob_puts(&c->t, msg == CALLBACK_MSG_RULE_MATCHING ? "m:" : "n:"); ob_puts(&c->t, ((YR_RULE*) data)->identifier); ob_putc(&c->t, ';'); }
  return CALLBACK_CONTINUE;
}
static void one(int k, OB* out) {
  YR_SCANNER* sc; CTX c = {{0}};
  yr_scanner_create(rules, &sc); yr_scanner_set_callback(sc, cb, &c);
  yr_scanner_define_string_variable(sc, "ext", EXTS[k % 4]);
  int rc = yr_scanner_scan_mem(sc, (const uint8_t*) BUFS[k % 4], strlen(BUFS[k % 4]));
  yr_scanner_destroy(sc);
  char b[32]; snprintf(b, sizeof b, "rc=%d", rc); ob_puts(&c.t, b);
  *out = c.t;
}
static void* tmain(void* arg) {
  int t = (int)(intptr_t) arg;
  for (int r = 0; r < rounds; r++) {
    OB o; one(t + r, &o);
    if (strcmp(o.p, expected[(t + r) % 4])) { __sync_fetch_and_add(&mismatches, 1); if (mismatches < 3) fprintf(stdout, "MISMATCH thread %d round %d: %s vs %s\n", t, r, o.p, expected[(t + r) % 4]); }
    free(o.p);
  }
  return NULL;
}
int main(int argc, char** argv) {
  int T = argc > 1 ? atoi(argv[1]) : 4; rounds = argc > 2 ? atoi(argv[2]) : 100;
  yr_initialize();
  YR_COMPILER* c; yr_compiler_create(&c); yr_compiler_define_string_variable(c, "ext", "v0");
  if (yr_compiler_add_string(c, RULES, NULL)) { printf("rules do not compile\n"); return 2; }
  yr_compiler_get_rules(c, &rules); yr_compiler_destroy(c);
  for (int k = 0; k < 4; k++) { OB o; one(k, &o); snprintf(expected[k], sizeof expected[k], "%s", o.p); free(o.p); }
  pthread_t th[64];
  for (int t = 0; t < T && t < 64; t++) pthread_create(&th[t], NULL, tmain, (void*)(intptr_t) t);
  for (int t = 0; t < T && t < 64; t++) pthread_join(th[t], NULL);
  yr_rules_destroy(rules); yr_finalize();
  printf("done threads=%d rounds=%d mismatches=%d\n", T, rounds, mismatches);
  return mismatches ? 3 : 0;
}
