/* c18: the real cli/yara.c (main renamed to yara_main, printf/fprintf captured) linked against this file INSTEAD OF
 * cli/threading.c: mutexes, semaphores, thread creation and joining go through the cooperative scheduler (yvsched.c).
 * Server: one line per execution:   RUN <threads> | <schedule csv or -> | <arg> <arg> ...     reply: one JSON line. */
#include <fcntl.h>
#include <stdarg.h>
#include <sys/wait.h>
#include <unistd.h>
#include "yvsched.h"
#include "yvcommon.h"

/* ---- the CLI's threading API (cli/threading.h), implemented on the scheduler ---- */
typedef pthread_mutex_t MUTEX;
typedef pthread_t THREAD;
typedef void* (*THREAD_START_ROUTINE)(void*);
typedef void* SEMAPHORE;

int yara_main(int argc, const char** argv);
extern int queue_head, queue_tail;

static YV_SEM sems[8]; static int nsems;
static int next_tid = 1;
static struct { THREAD_START_ROUTINE fn; void* arg; int tid; pthread_t handle; } kids[YV_MAXT];
static pthread_t* kid_handles[YV_MAXT];

int cli_mutex_init(MUTEX* m) { (void) m; return 0; }
void cli_mutex_destroy(MUTEX* m) { (void) m; }
static int got_file[YV_MAXT];   /* per scanning thread: last dequeue attempt found a file (local state of the thread, part of the state hash) */
void cli_mutex_lock(MUTEX* m) { yv_mutex_lock(m); int me = yv_self(); if (me > 0 && nsems >= 2) got_file[me] = (queue_head != queue_tail); }
void cli_mutex_unlock(MUTEX* m) { yv_mutex_unlock(m); }
int cli_semaphore_init(SEMAPHORE* s, int value) { YV_SEM* x = &sems[nsems++ % 8]; yv_sem_init(x, value); *s = x; return 0; }
void cli_semaphore_destroy(SEMAPHORE* s) { (void) s; }
int cli_semaphore_wait(SEMAPHORE* s, time_t deadline) { (void) deadline; yv_sem_wait((YV_SEM*) *s); return 0; }
void cli_semaphore_release(SEMAPHORE* s) { yv_sem_post((YV_SEM*) *s); }

static void* kid_main(void* p) {
  int k = (int)(intptr_t) p;
  yv_thread_begin(kids[k].tid);
  kids[k].fn(kids[k].arg);
  yv_thread_end();
  return NULL;
}
int cli_create_thread(THREAD* thread, THREAD_START_ROUTINE start, void* param) {
  int tid = next_tid++;
  if (tid >= YV_MAXT) return 1;
  kids[tid].fn = start; kids[tid].arg = param; kids[tid].tid = tid; kid_handles[tid] = thread;
  yv_point("create-thread");
  yv_thread_register(tid);
  pthread_create(&kids[tid].handle, NULL, kid_main, (void*)(intptr_t) tid);
  *thread = kids[tid].handle;
  return 0;
}
void cli_thread_join(THREAD* thread) {
  for (int t = 1; t < next_tid; t++) if (kid_handles[t] == thread) { yv_join(t); return; }
}

/* ---- captured output ---- */
static OB out_stdout, out_stderr;
int yv_printf(const char* fmt, ...) {
  char b[8192]; va_list ap; va_start(ap, fmt); int n = vsnprintf(b, sizeof b, fmt, ap); va_end(ap);
  yv_point("print");
  ob_puts(&out_stdout, b); return n;
}
int yv_fprintf(FILE* f, const char* fmt, ...) {
  char b[8192]; va_list ap; va_start(ap, fmt); int n = vsnprintf(b, sizeof b, fmt, ap); va_end(ap);
  if (f == stdout) { yv_point("print"); ob_puts(&out_stdout, b); } else ob_puts(&out_stderr, b);
  return n;
}

static int g_argc; static const char* g_argv[64]; static int exit_code = -1;
static void* main_thread(void* p) {
  (void) p;
  yv_thread_begin(0);
  exit_code = yara_main(g_argc, g_argv);
  yv_thread_end();
  return NULL;
}

static uint64_t extra_hash(void) {
  uint64_t h = (uint64_t) queue_head * 131 + (uint64_t) queue_tail * 31337;
  for (int i = 0; i < 8; i++) h = h * 1099511628211ULL + (uint64_t)(sems[i].value + 7);
  h = h * 1099511628211ULL + out_stdout.n;
  for (int t = 0; t < YV_MAXT; t++) h = h * 1099511628211ULL + (uint64_t) got_file[t];
  return h;
}

static int g_nthreads;
static void abs_state(char* buf, int cap) {
  int n = 0;
  for (int t = 0; t <= g_nthreads && n < cap - 24; t++) n += snprintf(buf + n, (size_t)(cap - n), "%c%ld;", yv_status_char(t), yv_npoints(t));
  snprintf(buf + n, (size_t)(cap - n), "|%d,%d|%d,%d", sems[1].value, sems[0].value, queue_head, queue_tail);   /* unused, used | head, tail */
}

static void run_child(int nthreads, int* sched, int ns) {
  g_nthreads = nthreads;
  yv_dynamic_threads = 1;
  yv_sched_reset(nthreads + 1, sched, ns);
  yv_sched_set_hash_fn(extra_hash);
  yv_sched_set_abs_fn(abs_state);
  pthread_t mt; pthread_create(&mt, NULL, main_thread, NULL);
  yv_controller_start();
  yv_controller_wait();
  OB o = {0};
  ob_puts(&o, "{\"points\":[");
  for (int i = 0; i < yv_nlog; i++) {
    char b[256]; snprintf(b, sizeof b, "%s[%d,%u,%d,\"%s\",\"%llx\",\"%s\"]", i ? "," : "", yv_log[i].tid, yv_log[i].enabled, yv_log[i].chosen, yv_log[i].label, (unsigned long long) yv_log[i].hash, yv_log[i].abs);
    ob_puts(&o, b);
  }
  { char fin[96]; abs_state(fin, sizeof fin); ob_puts(&o, "],\"final\":"); ob_jstr(&o, fin, -1); }
  ob_puts(&o, ",\"deadlock\":"); ob_int(&o, yv_deadlock); ob_puts(&o, ",\"diverged\":"); ob_int(&o, yv_diverged);
  ob_puts(&o, ",\"exit\":"); ob_int(&o, exit_code);
  ob_puts(&o, ",\"stdout\":"); ob_jstr(&o, out_stdout.p ? out_stdout.p : "", -1);
  ob_puts(&o, ",\"stderr\":"); ob_jstr(&o, out_stderr.p ? out_stderr.p : "", -1);
  ob_puts(&o, "}\n");
  size_t off = 0; while (off < o.n) { ssize_t w = write(1, o.p + off, o.n - off); if (w <= 0) break; off += (size_t) w; }
  _exit(0);
}

int main(int argc, char** argv) {
  char* line = NULL; size_t cap = 0; ssize_t len;
  const char* tmp = argc > 1 ? argv[1] : "/tmp";
  while ((len = getline(&line, &cap, stdin)) > 0) {
    while (len > 0 && (line[len - 1] == '\n' || line[len - 1] == '\r')) line[--len] = 0;
    if (strncmp(line, "RUN ", 4)) { printf("{}\n"); fflush(stdout); continue; }
    char* p = line + 4;
    int nthreads = (int) strtol(p, &p, 10);
    while (*p == ' ' || *p == '|') p++;
    static int sched[YV_MAXPOINTS]; int ns = 0;
    while (*p && *p != '|') { if (*p == '-' || *p == ' ') { p++; continue; } sched[ns++] = (int) strtol(p, &p, 10); if (*p == ',') p++; }
    if (*p == '|') p++;
    g_argc = 0; g_argv[g_argc++] = "yara";
    while (*p && g_argc < 63) { while (*p == ' ') p++; if (!*p) break; g_argv[g_argc++] = p; while (*p && *p != ' ') p++; if (*p) *p++ = 0; }
    g_argv[g_argc] = NULL;
    fflush(stdout);
    char errpath[600]; snprintf(errpath, sizeof errpath, "%s/c18_err_%d.txt", tmp, (int) getpid());
    pid_t pid = fork();
    if (pid == 0) {
      int fd = open(errpath, O_WRONLY | O_CREAT | O_TRUNC, 0600); if (fd >= 0) { dup2(fd, 2); close(fd); }
      alarm(60);
      run_child(nthreads, sched, ns);
      _exit(0);
    }
    int st = 0; waitpid(pid, &st, 0);
    if (!(WIFEXITED(st) && WEXITSTATUS(st) == 0)) {
      char eb[3000]; size_t n = 0; FILE* f = fopen(errpath, "rb"); if (f) { fseek(f, 0, SEEK_END); long sz = ftell(f); fseek(f, sz > 2900 ? sz - 2900 : 0, SEEK_SET); n = fread(eb, 1, 2900, f); fclose(f); }
      OB o = {0}; ob_puts(&o, "{\"crash\":"); ob_int(&o, WIFSIGNALED(st) ? WTERMSIG(st) : 1000 + WEXITSTATUS(st)); ob_puts(&o, ",\"stderr\":"); ob_jstr(&o, eb, (long) n); ob_puts(&o, "}\n");
      fputs(o.p, stdout); free(o.p);
    }
    fflush(stdout);
  }
  return 0;
}
