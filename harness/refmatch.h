/* Reference matchers, written from the manual and independent of libyara.
 * Buffers are at most 63 bytes long, so a set of positions 0..n is one uint64_t.
 *
 *  ref AST (hex strings and regular expressions): match(node, S) -> S'   (end positions reachable from start set S)
 *  ref_text: admissible (length, xor key) pairs of a text string at every offset, by definition.
 */
#ifndef REFMATCH_H
#define REFMATCH_H
#include <ctype.h>
#include <stdint.h>
#include <stdlib.h>
#include <string.h>

typedef uint64_t PS;
#define BIT(i) (1ULL << (i))

enum { N_EMPTY, N_BYTE /*value,mask,neg*/, N_CLASS, N_CONCAT, N_ALT, N_REP /*min,max(-1=inf)*/, N_BOL, N_EOL, N_WB, N_NWB };

typedef struct RNode {
  int kind;
  uint8_t value, mask; int neg;      /* N_BYTE: (b & mask) == value, negated if neg */
  uint8_t cls[32];                   /* N_CLASS bitmap */
  int min, max;                      /* N_REP */
  struct RNode *a, *b;
} RNode;

typedef struct { const uint8_t* d; int n; int wide; } RCtx;

static int cls_has(const RNode* x, uint8_t c) { return (x->cls[c >> 3] >> (c & 7)) & 1; }
static int is_word(uint8_t c) { return isalnum(c) || c == '_'; }

/* word-boundary test at position p (ascii): exactly one side is a word character */
static int at_wb(const RCtx* c, int p) {
  int l, r;
  if (c->wide) {
    l = p >= 2 && c->d[p - 1] == 0 && is_word(c->d[p - 2]);
    r = p + 1 < c->n && c->d[p + 1] == 0 && is_word(c->d[p]);
  } else {
    l = p > 0 && is_word(c->d[p - 1]);
    r = p < c->n && is_word(c->d[p]);
  }
  return l != r;
}

static PS rmatch(const RNode* x, PS S, const RCtx* c) {
  PS out = 0; int n = c->n, step = c->wide ? 2 : 1;
  if (!S) return 0;
  switch (x->kind) {
  case N_EMPTY: return S;
  case N_BYTE: case N_CLASS:
    for (int p = 0; p + step <= n; p++) if (S & BIT(p)) {
      uint8_t b = c->d[p]; int ok;
      if (x->kind == N_BYTE) { ok = ((b & x->mask) == x->value); if (x->neg) ok = !ok; }
      else ok = cls_has(x, b);
      if (ok && c->wide && c->d[p + 1] != 0) ok = 0;
      if (ok) out |= BIT(p + step);
    }
    return out;
  case N_CONCAT: return rmatch(x->b, rmatch(x->a, S, c), c);
  case N_ALT: return rmatch(x->a, S, c) | rmatch(x->b, S, c);
  case N_REP: {
    PS cur = S;
    for (int i = 0; i < x->min; i++) cur = rmatch(x->a, cur, c);
    out = cur;
    if (x->max < 0) { for (;;) { PS nx = rmatch(x->a, cur, c) & ~out; if (!nx) break; out |= nx; cur = nx; } }
    else for (int i = x->min; i < x->max; i++) { cur = rmatch(x->a, cur, c); if (!cur) break; out |= cur; }
    return out; }
  case N_BOL: return S & BIT(0);
  case N_EOL: return S & BIT(n);
  case N_WB: for (int p = 0; p <= n; p++) if ((S & BIT(p)) && at_wb(c, p)) out |= BIT(p); return out;
  case N_NWB: for (int p = 0; p <= n; p++) if ((S & BIT(p)) && !at_wb(c, p)) out |= BIT(p); return out;
  }
  return 0;
}

/* ---- AST parser: prefix text
 *   E | B vv mm n | C <64 hex> | . a b (concat) | | a b (alt) | R min max a | ^ | $ | b | N
 */
static RNode* rparse(char** s) {
  while (**s == ' ') (*s)++;
  RNode* x = (RNode*) calloc(1, sizeof(RNode));
  char k = *(*s)++;
  switch (k) {
  case 'E': x->kind = N_EMPTY; break;
  case 'B': { unsigned v, m; int ng, used = 0; sscanf(*s, " %x %x %d%n", &v, &m, &ng, &used); *s += used; x->kind = N_BYTE; x->value = (uint8_t) v; x->mask = (uint8_t) m; x->neg = ng; break; }
  case 'C': { while (**s == ' ') (*s)++; x->kind = N_CLASS; for (int i = 0; i < 32; i++) { unsigned v; sscanf(*s, "%2x", &v); x->cls[i] = (uint8_t) v; *s += 2; } break; }
  case '.': x->kind = N_CONCAT; x->a = rparse(s); x->b = rparse(s); break;
  case '|': x->kind = N_ALT; x->a = rparse(s); x->b = rparse(s); break;
  case 'R': { int mn, mx, used = 0; sscanf(*s, " %d %d%n", &mn, &mx, &used); *s += used; x->kind = N_REP; x->min = mn; x->max = mx; x->a = rparse(s); break; }
  case '^': x->kind = N_BOL; break;
  case '$': x->kind = N_EOL; break;
  case 'b': x->kind = N_WB; break;
  case 'N': x->kind = N_NWB; break;
  default: x->kind = N_EMPTY; break;
  }
  return x;
}
static void rfree(RNode* x) { if (!x) return; rfree(x->a); rfree(x->b); free(x); }

/* ---------------------------------------------------------------------------------------------
 * text strings by definition */
typedef struct {
  uint8_t s[64]; int len;
  int ascii, wide, nocase, fullword, is_xor, xlo, xhi;
  int b64, b64wide; uint8_t alpha[64], alphaw[64];
  /* derived: literal variants for base64 */
  uint8_t lit[16][200]; int litlen[16]; int nlit;
} TextSpec;

static int b64enc(const uint8_t* in, int n, const uint8_t* al, uint8_t* out) {
  int o = 0, i = 0;
  for (; i + 3 <= n; i += 3) { out[o++] = al[in[i] >> 2]; out[o++] = al[((in[i] & 3) << 4) | (in[i + 1] >> 4)]; out[o++] = al[((in[i + 1] & 15) << 2) | (in[i + 2] >> 6)]; out[o++] = al[in[i + 2] & 63]; }
  if (n - i == 1) { out[o++] = al[in[i] >> 2]; out[o++] = al[(in[i] & 3) << 4]; out[o++] = '='; out[o++] = '='; }
  else if (n - i == 2) { out[o++] = al[in[i] >> 2]; out[o++] = al[((in[i] & 3) << 4) | (in[i + 1] >> 4)]; out[o++] = al[(in[i + 1] & 15) << 2]; out[o++] = '='; }
  return o;
}
/* the three position-dependent encodings with the characters that depend on unknown neighbours removed */
static void b64variants(TextSpec* t, const uint8_t* plain, int plen, const uint8_t* al, int towide) {
  for (int i = 0; i < 3; i++) {
    uint8_t tmp[80], enc[160]; int k = 0;
    for (int j = 0; j < i; j++) tmp[k++] = 'A';
    memcpy(tmp + k, plain, (size_t) plen); k += plen;
    int e = b64enc(tmp, k, al, enc);
    int missing = (3 - k % 3) % 3;                 /* bytes missing to complete the last triple */
    int lead = i ? i + 1 : 0, trail = missing ? missing + 1 : 0;
    int L = e - lead - trail;
    if (L <= 0) continue;
    int idx = t->nlit++;
    if (towide) { for (int j = 0; j < L; j++) { t->lit[idx][2 * j] = enc[lead + j]; t->lit[idx][2 * j + 1] = 0; } t->litlen[idx] = 2 * L; }
    else { memcpy(t->lit[idx], enc + lead, (size_t) L); t->litlen[idx] = L; }
  }
}
static void text_prepare(TextSpec* t) {
  t->nlit = 0;
  if (!(t->b64 || t->b64wide)) return;
  uint8_t w[128]; for (int i = 0; i < t->len; i++) { w[2 * i] = t->s[i]; w[2 * i + 1] = 0; }
  int doascii = t->ascii || !t->wide;
  if (t->b64) { if (doascii) b64variants(t, t->s, t->len, t->alpha, 0); if (t->wide) b64variants(t, w, 2 * t->len, t->alpha, 0); }
  if (t->b64wide) { if (doascii) b64variants(t, t->s, t->len, t->alphaw, 1); if (t->wide) b64variants(t, w, 2 * t->len, t->alphaw, 1); }
}

#define MAXADM 64
typedef struct { int n; int len[MAXADM]; int key[MAXADM]; } Adm;
static void adm_add(Adm* a, int len, int key) { for (int i = 0; i < a->n; i++) if (a->len[i] == len && a->key[i] == key) return; if (a->n < MAXADM) { a->len[a->n] = len; a->key[a->n] = key; a->n++; } }

static int eqci(uint8_t a, uint8_t b, int nocase) { if (a == b) return 1; return nocase && isalpha(a) && isalpha(b) && tolower(a) == tolower(b); }

/* admissible (length,key) pairs at offset o of buffer d[0..n) */
static void text_admissible(const TextSpec* t, const uint8_t* d, int n, int o, Adm* out) {
  out->n = 0;
  if (t->b64 || t->b64wide) {
    for (int i = 0; i < t->nlit; i++) if (o + t->litlen[i] <= n && !memcmp(d + o, t->lit[i], (size_t) t->litlen[i])) adm_add(out, t->litlen[i], 0);
    return;
  }
  int doascii = t->ascii || !t->wide;
  int klo = t->is_xor ? t->xlo : 0, khi = t->is_xor ? t->xhi : 0;
  for (int form = 0; form < 2; form++) {
    if (form == 0 && !doascii) continue;
    if (form == 1 && !t->wide) continue;
    int L = form ? 2 * t->len : t->len;
    if (o + L > n) continue;
    for (int k = klo; k <= khi; k++) {
      int ok = 1;
      for (int i = 0; i < t->len && ok; i++) {
        if (form == 0) ok = eqci(d[o + i], (uint8_t)(t->s[i] ^ k), t->nocase);
        else ok = eqci(d[o + 2 * i], (uint8_t)(t->s[i] ^ k), t->nocase) && d[o + 2 * i + 1] == (uint8_t)(0 ^ k);
      }
      if (!ok) continue;
      if (t->fullword) {
        if (form == 0) {
          if (o > 0 && isalnum(d[o - 1])) continue;
          if (o + L < n && isalnum(d[o + L])) continue;
        } else {
          if (o >= 2 && d[o - 1] == 0 && isalnum(d[o - 2])) continue;
          if (o + L + 1 < n && isalnum(d[o + L]) && d[o + L + 1] == 0) continue;
        }
      }
      adm_add(out, L, k);
    }
  }
}
#endif
