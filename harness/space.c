/* space: exhaustive "program x every buffer of a space" loops against the reference matchers.
 * stdin commands (one per line):
 *   B all <alphabet hex> <maxlen>                     every buffer over the alphabet, length 0..maxlen
 *   B units <units hex (2 bytes each)> <maxunits> <lead hex|-> <trail hex|->   sequences of 2-byte units, optional odd lead/trail byte
 *   B list <hex> <hex> ...                            explicit buffers ("-" = empty)
 *   B add ...                                          same three forms, appended to the current space instead of replacing it
 *   T <id> <rulehex> <str hex> <flags>  [xor=lo-hi] [b64=<alpha hex>] [b64w=<alpha hex>]
 *        flags: letters a(ascii) w(wide) n(nocase) f(fullword) x(xor) p(private)
 *   A <id> <rulehex> <opts> <prefix AST ...>          opts letters: s(string mode) m(matches mode) f(fullword) a(ascii) w(wide)
 * one JSON reply line per T/A command.  The first rule's first unchained string carries the matches; if a second rule exists its
 * verdict must be "matching" iff the match set is non-empty. */
#include <yara.h>
#include "refmatch.h"
#include "yvcommon.h"

#define MAXBUF 63
static uint8_t (*SP)[MAXBUF + 1]; static uint8_t* SPLEN; static long nsp, capsp;
static void sp_add(const uint8_t* b, int n) {
  if (nsp == capsp) { capsp = capsp ? capsp * 2 : 1 << 16; SP = realloc(SP, (size_t) capsp * (MAXBUF + 1)); SPLEN = realloc(SPLEN, (size_t) capsp); }
  memcpy(SP[nsp], b, (size_t) n); SPLEN[nsp] = (uint8_t) n; nsp++;
}

typedef struct { long off; int len, key; } M;
static M got[4096]; static int ngot; static int verdict1, verdict2, have2, tmm, nrulemsg;
/* multi-rule mode (command M): matches of the first string of each of up to 8 rules */
static int multi; static M mg[8][512]; static int nmg[8]; static int mverd[8];
static int cb(YR_SCAN_CONTEXT* ctx, int msg, void* data, void* ud) {
  if (msg == CALLBACK_MSG_RULE_MATCHING || msg == CALLBACK_MSG_RULE_NOT_MATCHING) {
    YR_RULE* r = (YR_RULE*) data;
    if (multi) {
      if (nrulemsg < 8) {
        YR_STRING* s; int k = nrulemsg; nmg[k] = 0; mverd[k] = (msg == CALLBACK_MSG_RULE_MATCHING);
        yr_rule_strings_foreach(r, s) { for (YR_MATCH* m = ctx->matches[s->idx].head; m; m = m->next) if (nmg[k] < 512) { mg[k][nmg[k]].off = (long)(m->base + m->offset); mg[k][nmg[k]].len = m->match_length; nmg[k]++; } break; }
      }
      nrulemsg++; return CALLBACK_CONTINUE;
    }
    if (nrulemsg == 0) {
      YR_STRING* s; ngot = 0; verdict1 = (msg == CALLBACK_MSG_RULE_MATCHING);
      yr_rule_strings_foreach(r, s) {
        if (s->chained_to != NULL) continue;
        for (YR_MATCH* m = ctx->matches[s->idx].head; m; m = m->next) if (ngot < 4096) { got[ngot].off = (long)(m->base + m->offset); got[ngot].len = m->match_length; got[ngot].key = m->xor_key; ngot++; }
        break;
      }
    } else if (nrulemsg == 1) { have2 = 1; verdict2 = (msg == CALLBACK_MSG_RULE_MATCHING); }
    nrulemsg++;
  } else if (msg == CALLBACK_MSG_TOO_MANY_MATCHES) tmm = 1;
  return CALLBACK_CONTINUE;
}

static OB out;
static void viol(const char* what, const uint8_t* b, int n, const char* extra) {
  ob_puts(&out, "{\"what\":\""); ob_puts(&out, what); ob_puts(&out, "\",\"buffer\":\""); ob_hex(&out, b, (size_t) n); ob_puts(&out, "\",\"got\":[");
  for (int i = 0; i < ngot; i++) { if (i) ob_putc(&out, ','); ob_putc(&out, '['); ob_int(&out, got[i].off); ob_putc(&out, ','); ob_int(&out, got[i].len); ob_putc(&out, ','); ob_int(&out, got[i].key); ob_putc(&out, ']'); }
  ob_puts(&out, "],\"expected\":"); ob_puts(&out, extra); ob_putc(&out, '}');
}

int main(void) {
  char* line = NULL; size_t cap = 0; ssize_t len;
  yr_initialize();
  uint32_t v = 64; yr_set_configuration(YR_CONFIG_STACK_SIZE, &v); v = 16; yr_set_configuration(YR_CONFIG_MAX_MATCH_DATA, &v);
  setvbuf(stdout, NULL, _IOFBF, 1 << 16);
  while ((len = getline(&line, &cap, stdin)) > 0) {
    while (len > 0 && (line[len - 1] == '\n' || line[len - 1] == '\r')) line[--len] = 0;
    /* one token per blank-separated word; explicit buffer lists can have thousands of words: the array is sized from the line, and a line that would
       not fit is refused loudly instead of being cut short */
    static char** tok = NULL; static size_t tokcap = 0;
    { size_t need = 4; for (char* q = line; *q; q++) if (*q == ' ') need++; if (need > tokcap) { tokcap = need * 2; tok = (char**) realloc(tok, tokcap * sizeof(char*)); } }
    int nt = 0; char* p = line;
    char* rest = NULL;
    while (*p && (size_t) nt < tokcap - 1) { while (*p == ' ') p++; if (!*p) break; tok[nt++] = p; if (line[0] == 'A' && nt == 5) { rest = p; break; } while (*p && *p != ' ') p++; if (*p) *p++ = 0; }
    if (nt == 0) continue;
    if (tok[0][0] == 'B') {
      int t = 1;
      if (!strcmp(tok[1], "add")) t = 2; else nsp = 0;
      if (!strcmp(tok[t], "all")) {
        size_t na; uint8_t* al = unhex(tok[t + 1], &na); int maxlen = atoi(tok[t + 2]); uint8_t b[MAXBUF + 1]; int idx[MAXBUF + 1];
        for (int L = 0; L <= maxlen; L++) {
          memset(idx, 0, sizeof idx);
          for (;;) { for (int i = 0; i < L; i++) b[i] = al[idx[i]]; sp_add(b, L); int i = L - 1; while (i >= 0 && ++idx[i] == (int) na) { idx[i] = 0; i--; } if (i < 0) break; }
        }
        free(al);
      } else if (!strcmp(tok[t], "units")) {
        size_t nu, nl, ntr; uint8_t* un = unhex(tok[t + 1], &nu); nu /= 2; int maxu = atoi(tok[t + 2]); uint8_t* ld = unhex(tok[t + 3], &nl); uint8_t* tr = unhex(tok[t + 4], &ntr);
        uint8_t b[MAXBUF + 1]; int idx[32];
        for (int L = 0; L <= maxu; L++) {
          memset(idx, 0, sizeof idx);
          for (;;) {
            for (int li = -1; li < (int) nl; li++) for (int ti = -1; ti < (int) ntr; ti++) {
              int k = 0; if (li >= 0) b[k++] = ld[li];
              for (int i = 0; i < L; i++) { b[k++] = un[2 * idx[i]]; b[k++] = un[2 * idx[i] + 1]; }
              if (ti >= 0) b[k++] = tr[ti];
              sp_add(b, k);
            }
            int i = L - 1; while (i >= 0 && ++idx[i] == (int) nu) { idx[i] = 0; i--; } if (i < 0) break;
          }
        }
        free(un); free(ld); free(tr);
      } else if (!strcmp(tok[t], "list")) {
        for (int i = t + 1; i < nt; i++) { size_t n; uint8_t* b = unhex(tok[i], &n); if (n <= MAXBUF) sp_add(b, (int) n); free(b); }
      }
      printf("{\"space\":%ld}\n", nsp); fflush(stdout);
      continue;
    }
    if (tok[0][0] == 'M') {
      /* M <id> <rulehex> <k> <str1hex> .. <strkhex> : k rules, rule i has exactly one plain text string */
      const char* id = tok[1]; size_t rn; uint8_t* rule = unhex(tok[2], &rn); int k = atoi(tok[3]);
      uint8_t pats[8][64]; size_t plen[8];
      for (int i = 0; i < k && i < 8; i++) { size_t n; uint8_t* b = unhex(tok[4 + i], &n); memcpy(pats[i], b, n); plen[i] = n; free(b); }
      YR_COMPILER* c = NULL; YR_RULES* rules = NULL; YR_SCANNER* sc = NULL;
      yr_compiler_create(&c);
      ob_reset(&out);
      if (yr_compiler_add_string(c, (const char*) rule, NULL) || yr_compiler_get_rules(c, &rules) != ERROR_SUCCESS || yr_scanner_create(rules, &sc) != ERROR_SUCCESS) {
        ob_puts(&out, "{\"id\":\""); ob_puts(&out, id); ob_puts(&out, "\",\"cerr\":\"compile\"}");
      } else {
        long evals = 0, nontriv = 0, nviol = 0; OB fv = {0};
        yr_scanner_set_callback(sc, cb, NULL); multi = 1;
        for (long bi = 0; bi < nsp; bi++) {
          const uint8_t* b = SP[bi]; int n = SPLEN[bi];
          nrulemsg = 0; for (int i = 0; i < k; i++) nmg[i] = 0;
          int rc = yr_scanner_scan_mem(sc, b, (size_t) n); evals++;
          int bad = rc != ERROR_SUCCESS || nrulemsg != k, badrule = -1, any = 0;
          for (int i = 0; i < k && !bad; i++) {
            int gi = 0;
            for (int o = 0; o + (int) plen[i] <= n; o++) {
              if (!memcmp(b + o, pats[i], plen[i])) { any = 1; if (gi >= nmg[i] || mg[i][gi].off != o || mg[i][gi].len != (int) plen[i]) { bad = 1; badrule = i; break; } gi++; }
            }
            if (!bad && (gi != nmg[i] || mverd[i] != (gi > 0))) { bad = 1; badrule = i; }
          }
          if (any) nontriv++;
          if (bad) { nviol++; if (!fv.n) { OB sv = out; out = fv; ob_puts(&out, "{\"buffer\":\""); ob_hex(&out, b, (size_t) n); ob_puts(&out, "\",\"rule\":"); ob_int(&out, badrule); ob_puts(&out, ",\"rc\":"); ob_int(&out, rc);
              ob_puts(&out, ",\"got\":["); for (int i = 0; badrule >= 0 && i < nmg[badrule]; i++) { if (i) ob_putc(&out, ','); ob_int(&out, mg[badrule][i].off); } ob_puts(&out, "]}"); fv = out; out = sv; } }
        }
        multi = 0;
        ob_puts(&out, "{\"id\":\""); ob_puts(&out, id); ob_puts(&out, "\",\"evals\":"); ob_int(&out, evals); ob_puts(&out, ",\"nontrivial\":"); ob_int(&out, nontriv);
        ob_puts(&out, ",\"nviol\":"); ob_int(&out, nviol); ob_puts(&out, ",\"viol\":["); if (fv.n) ob_puts(&out, fv.p); ob_puts(&out, "]}"); free(fv.p);
      }
      if (sc) yr_scanner_destroy(sc); if (rules) yr_rules_destroy(rules); if (c) yr_compiler_destroy(c); free(rule);
      fputs(out.p, stdout); fputc('\n', stdout); fflush(stdout);
      continue;
    }
    /* ---- program ---- */
    const char* id = tok[1]; size_t rn; uint8_t* rule = unhex(tok[2], &rn);
    TextSpec ts; memset(&ts, 0, sizeof ts); RNode* ast = NULL; int istext = tok[0][0] == 'T';
    int o_string = 1, o_matches = 0, o_full = 0, o_ascii = 0, o_wide = 0, o_lazy = 0;
    if (istext) {
      size_t sn; uint8_t* s = unhex(tok[3], &sn); memcpy(ts.s, s, sn); ts.len = (int) sn; free(s);
      for (const char* f = tok[4]; *f; f++) { if (*f == 'a') ts.ascii = 1; if (*f == 'w') ts.wide = 1; if (*f == 'n') ts.nocase = 1; if (*f == 'f') ts.fullword = 1; if (*f == 'x') ts.is_xor = 1; }
      ts.xlo = 0; ts.xhi = 255;
      for (int i = 5; i < nt; i++) {
        if (!strncmp(tok[i], "xor=", 4)) sscanf(tok[i] + 4, "%d-%d", &ts.xlo, &ts.xhi);
        if (!strncmp(tok[i], "b64=", 4)) { size_t n; uint8_t* a = unhex(tok[i] + 4, &n); memcpy(ts.alpha, a, 64); free(a); ts.b64 = 1; }
        if (!strncmp(tok[i], "b64w=", 5)) { size_t n; uint8_t* a = unhex(tok[i] + 5, &n); memcpy(ts.alphaw, a, 64); free(a); ts.b64wide = 1; }
      }
      text_prepare(&ts);
    } else {
      o_string = 0;
      for (const char* f = tok[3]; *f; f++) { if (*f == 's') o_string = 1; if (*f == 'm') o_matches = 1; if (*f == 'f') o_full = 1; if (*f == 'a') o_ascii = 1; if (*f == 'w') o_wide = 1; if (*f == 'l') o_lazy = 1; }
      if (!o_wide) o_ascii = 1;
      char* q = rest; ast = rparse(&q);
    }
    YR_COMPILER* c = NULL; YR_RULES* rules = NULL; YR_SCANNER* sc = NULL;
    yr_compiler_create(&c);
    if (o_matches) yr_compiler_define_string_variable(c, "ext", "");
    int errs = yr_compiler_add_string(c, (const char*) rule, NULL);
    ob_reset(&out);
    long evals = 0, nontriv = 0, limit = 0, nviol = 0, reported = 0;
    if (errs) { char em[256]; yr_compiler_get_error_message(c, em, sizeof em); ob_puts(&out, "{\"id\":\""); ob_puts(&out, id); ob_puts(&out, "\",\"cerr\":"); ob_jstr(&out, em, -1); ob_putc(&out, '}'); goto done; }
    if (yr_compiler_get_rules(c, &rules) != ERROR_SUCCESS || yr_scanner_create(rules, &sc) != ERROR_SUCCESS) { ob_puts(&out, "{\"id\":\""); ob_puts(&out, id); ob_puts(&out, "\",\"cerr\":\"get_rules\"}"); goto done; }
    yr_scanner_set_callback(sc, cb, NULL);
    OB firstv = {0};
    for (long bi = 0; bi < nsp; bi++) {
      const uint8_t* b = SP[bi]; int n = SPLEN[bi]; int rc;
      ngot = 0; have2 = 0; verdict2 = 0; tmm = 0; nrulemsg = 0;
      if (o_matches) {
        if (memchr(b, 0, (size_t) n)) continue;
        char tmp[MAXBUF + 1]; memcpy(tmp, b, (size_t) n); tmp[n] = 0;
        yr_scanner_define_string_variable(sc, "ext", tmp);
        rc = yr_scanner_scan_mem(sc, (const uint8_t*) "x", 1);
      } else rc = yr_scanner_scan_mem(sc, b, (size_t) n);
      evals++;
      if (rc == ERROR_TOO_MANY_RE_FIBERS || rc == ERROR_TOO_MANY_MATCHES || tmm) { limit++; continue; }
      const char* what = NULL; char exp[700]; exp[0] = 0;
      if (rc != ERROR_SUCCESS) { what = "scan-error"; snprintf(exp, sizeof exp, "{\"rc\":%d}", rc); }
      else if (o_matches) {
        RCtx cx = { b, n, 0 }; int any = 0, anybefore = 0;
        for (int o = 0; o <= n && !any; o++) if (rmatch(ast, BIT(o), &cx)) { any = 1; if (o < n) anybefore = 1; }
        if (any) nontriv++;
        if (verdict1 != any) { what = (any && !anybefore && !verdict1) ? "matches-operator-empty-match-at-end-of-operand" : "matches-operator"; snprintf(exp, sizeof exp, "{\"matches\":%d}", any); }
      } else {
        /* expected offsets and admissible lengths */
        int gi = 0; long prev = -1; int anyexp = 0;
        for (int o = 0; o < n && !what; o++) {
          Adm ad; PS la = 0, lw = 0;
          int expd, prefok = 1;
          if (istext) { text_admissible(&ts, b, n, o, &ad); expd = ad.n > 0; }
          else {
            if (o_ascii) { RCtx cx = { b, n, 0 }; la = rmatch(ast, BIT(o), &cx); }
            if (o_wide) { RCtx cx = { b, n, 1 }; lw = rmatch(ast, BIT(o), &cx); }
            if (o_full) {
              PS fa = 0, fw = 0;
              for (int e = o + 1; e <= n; e++) {
                if ((la & BIT(e)) && !(o > 0 && isalnum(b[o - 1])) && !(e < n && isalnum(b[e]))) fa |= BIT(e);
                if ((lw & BIT(e)) && !(o >= 2 && b[o - 1] == 0 && isalnum(b[o - 2])) && !(e + 1 < n && isalnum(b[e]) && b[e + 1] == 0)) fw |= BIT(e);
              }
              /* a backtracking-free engine tests the word delimiters on ONE length of its choosing (leftmost-first / longest / shortest):
                 if some length the expression can match here (the empty one included) is not a full word, a miss is classified apart */
              { PS raw = (la | lw) >> o, pass = (fa | fw) >> o; (void) o_lazy; prefok = (raw & ~pass) == 0; }
              la = fa | (la & BIT(o)); lw = fw | (lw & BIT(o));
            }
            expd = ((la | lw) >> (o + 1)) != 0;
          }
          int rep = gi < ngot && got[gi].off == o;
          if (expd) anyexp = 1;
          if (rep && got[gi].off <= prev) { what = "order-or-duplicate"; break; }
          if (expd && !rep) { what = (o_full && !prefok) ? "missed-fullword-where-another-length-is-no-full-word" : "missed"; snprintf(exp, sizeof exp, "{\"offset\":%d}", o); break; }
          if (!expd && rep) { what = (got[gi].len == 0) ? "zero-length-match-reported" : "extra"; snprintf(exp, sizeof exp, "{\"offset\":%d,\"none\":1}", o); break; }
          if (rep) {
            int okl = 0;
            if (istext) { for (int i = 0; i < ad.n; i++) if (ad.len[i] == got[gi].len && ad.key[i] == got[gi].key) okl = 1; }
            else okl = got[gi].len >= 0 && o + got[gi].len <= n && (((la | lw) >> (o + got[gi].len)) & 1) && got[gi].key == 0;
            if (!okl) { what = istext ? "wrong-length-or-key" : "wrong-length"; snprintf(exp, sizeof exp, "{\"offset\":%d}", o); break; }
            prev = got[gi].off; gi++; reported++;
          }
        }
        if (!what && gi < ngot) { what = (got[gi].len == 0 && got[gi].off == n) ? "zero-length-match-reported" : "extra"; snprintf(exp, sizeof exp, "{\"offset\":%ld,\"none\":1}", got[gi].off); }
        if (!what && have2 && verdict2 != (ngot > 0)) { what = "verdict"; snprintf(exp, sizeof exp, "{\"verdict\":%d}", ngot > 0); }
        if (anyexp) nontriv++;
      }
      if (what) { nviol++; if (!firstv.n) { OB sv = out; out = firstv; viol(what, b, n, exp[0] ? exp : "null"); firstv = out; out = sv; } else if (nviol < 50 && !strstr(firstv.p, what)) { /* keep one example per kind */ OB sv = out; out = firstv; ob_putc(&out, ','); viol(what, b, n, exp[0] ? exp : "null"); firstv = out; out = sv; } }
    }
    ob_puts(&out, "{\"id\":\""); ob_puts(&out, id); ob_puts(&out, "\",\"evals\":"); ob_int(&out, evals); ob_puts(&out, ",\"nontrivial\":"); ob_int(&out, nontriv);
    ob_puts(&out, ",\"limit\":"); ob_int(&out, limit); ob_puts(&out, ",\"reported\":"); ob_int(&out, reported); ob_puts(&out, ",\"nviol\":"); ob_int(&out, nviol);
    ob_puts(&out, ",\"viol\":["); if (firstv.n) ob_puts(&out, firstv.p); ob_puts(&out, "]}"); free(firstv.p);
  done:
    if (sc) yr_scanner_destroy(sc); if (rules) yr_rules_destroy(rules); if (c) yr_compiler_destroy(c);
    rfree(ast); free(rule);
    fputs(out.p, stdout); fputc('\n', stdout); fflush(stdout);
  }
  return 0;
}
