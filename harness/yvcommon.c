/* allocator wrap + virtual clock; see yvcommon.h */
#include "yvcommon.h"
#include <errno.h>

int yv_alloc_track = 0;
long yv_alloc_count = 0, yv_fail_at = 0, yv_live = 0, yv_fail_hits = 0;
int yv_fail_mode = 0;

int yv_clock_virtual = 0;
long yv_clock_polls = 0, yv_clock_jump_at = 0;
long long yv_clock_jump_ns = 0;
static long long vnow = 1000000000LL;

int yv_clock_last_id = -1;     /* which clock libyara's stopwatch asked for (a CPU-time clock of the whole process would couple the timeouts of concurrent scans) */
int yv_clock_gettime(clockid_t id, struct timespec* ts) {
#undef clock_gettime
  __atomic_store_n(&yv_clock_last_id, (int) id, __ATOMIC_RELAXED);   /* written by every scanning thread */
  if (!yv_clock_virtual) return clock_gettime(id, ts);
  yv_clock_polls++;
  vnow += 1000; /* 1 microsecond per poll */
  if (yv_clock_jump_at && yv_clock_polls == yv_clock_jump_at) vnow += yv_clock_jump_ns;
  ts->tv_sec = vnow / 1000000000LL; ts->tv_nsec = vnow % 1000000000LL;
  return 0;
}

#ifdef YV_WRAP
void* __real_malloc(size_t); void* __real_calloc(size_t, size_t); void* __real_realloc(void*, size_t);
void __real_free(void*); char* __real_strdup(const char*); char* __real_strndup(const char*, size_t);

/* open-addressing pointer set of tracked live allocations */
#define TBITS 20
#define TSIZE (1u << TBITS)
static void* tab[TSIZE];
static unsigned hp(void* p) { uint64_t x = (uint64_t)(uintptr_t) p; x ^= x >> 33; x *= 0xff51afd7ed558ccdULL; x ^= x >> 29; return (unsigned)(x & (TSIZE - 1)); }
#define TOMB ((void*) 1)
static long t_filled = 0; /* non-NULL slots incl. tombstones */
static void t_rebuild(void) {
  void** live = (void**) __real_malloc(sizeof(void*) * (size_t)(yv_live + 1)); long k = 0;
  for (unsigned i = 0; i < TSIZE; i++) if (tab[i] && tab[i] != TOMB) live[k++] = tab[i];
  memset(tab, 0, sizeof tab); t_filled = 0;
  for (long j = 0; j < k; j++) { unsigned i = hp(live[j]); while (tab[i]) i = (i + 1) & (TSIZE - 1); tab[i] = live[j]; t_filled++; }
  __real_free(live);
}
static void t_add(void* p) {
  if (t_filled > (long)(TSIZE / 2)) t_rebuild();
  unsigned i = hp(p); while (tab[i] && tab[i] != TOMB) i = (i + 1) & (TSIZE - 1);
  if (!tab[i]) t_filled++;
  tab[i] = p; yv_live++;
}
static int t_del(void* p) { unsigned i = hp(p); while (tab[i]) { if (tab[i] == p) { tab[i] = TOMB; yv_live--; return 1; } i = (i + 1) & (TSIZE - 1); } return 0; }
void yv_alloc_reset(void) { memset(tab, 0, sizeof tab); t_filled = 0; yv_live = 0; yv_alloc_count = 0; yv_fail_hits = 0; }

#include <execinfo.h>
void* yv_fail_bt[12]; int yv_fail_bt_n = 0;
static int should_fail(void) {
  if (!yv_alloc_track) return 0;
  yv_alloc_count++;
  if (yv_fail_at && (yv_alloc_count == yv_fail_at || (yv_fail_mode == 1 && yv_alloc_count > yv_fail_at))) {
    if (yv_fail_hits == 0) { int t = yv_alloc_track; yv_alloc_track = 0; yv_fail_bt_n = backtrace(yv_fail_bt, 12); yv_alloc_track = t; }
    yv_fail_hits++; errno = ENOMEM; return 1;
  }
  return 0;
}
void* __wrap_malloc(size_t n) { if (should_fail()) return NULL; void* p = __real_malloc(n); if (p && yv_alloc_track) t_add(p); return p; }
void* __wrap_calloc(size_t a, size_t b) { if (should_fail()) return NULL; void* p = __real_calloc(a, b); if (p && yv_alloc_track) t_add(p); return p; }
void* __wrap_realloc(void* o, size_t n) {
  if (should_fail()) return NULL;
  int was = o ? t_del(o) : 0;
  void* p = __real_realloc(o, n);
  if (p) { if (was || yv_alloc_track) t_add(p); }
  else if (was && n != 0) t_add(o);
  return p;
}
void __wrap_free(void* p) { if (p) t_del(p); __real_free(p); }
char* __wrap_strdup(const char* s) { if (should_fail()) return NULL; char* p = __real_strdup(s); if (p && yv_alloc_track) t_add(p); return p; }
char* __wrap_strndup(const char* s, size_t n) { if (should_fail()) return NULL; char* p = __real_strndup(s, n); if (p && yv_alloc_track) t_add(p); return p; }
#else
void* yv_fail_bt[12]; int yv_fail_bt_n = 0;
void yv_alloc_reset(void) { yv_live = 0; yv_alloc_count = 0; }
#endif
