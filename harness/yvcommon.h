/* Shared helpers for the /verif harness programs: hex decoding, output buffer with JSON string
 * escaping, wrapped allocator with fault injection + live accounting, harness-owned clock. */
#ifndef YVCOMMON_H
#define YVCOMMON_H
#include <stdint.h>
#include <stdio.h>
#include <stdlib.h>
#include <string.h>
#include <time.h>

/* ---------- output buffer ---------- */
typedef struct { char* p; size_t n, cap; } OB;
static void ob_need(OB* o, size_t k) {
  if (o->n + k + 1 > o->cap) {
    size_t c = o->cap ? o->cap * 2 : 4096;
    while (c < o->n + k + 1) c *= 2;
    o->p = (char*) realloc(o->p, c); o->cap = c;
  }
}
static void ob_putc(OB* o, char c) { ob_need(o, 1); o->p[o->n++] = c; o->p[o->n] = 0; }
static void ob_puts(OB* o, const char* s) { size_t k = strlen(s); ob_need(o, k); memcpy(o->p + o->n, s, k); o->n += k; o->p[o->n] = 0; }
static void ob_int(OB* o, long long v) { char b[32]; snprintf(b, sizeof b, "%lld", v); ob_puts(o, b); }
static void ob_jstr(OB* o, const char* s, long len) {
  if (s == NULL) { ob_puts(o, "null"); return; }
  if (len < 0) len = (long) strlen(s);
  ob_putc(o, '"');
  for (long i = 0; i < len; i++) {
    unsigned char c = (unsigned char) s[i];
    if (c == '"' || c == '\\') { ob_putc(o, '\\'); ob_putc(o, (char) c); }
    else if (c < 0x20 || c >= 0x7f) { char b[8]; snprintf(b, sizeof b, "\\u%04x", c); ob_puts(o, b); }
    else ob_putc(o, (char) c);
  }
  ob_putc(o, '"');
}
static void ob_hex(OB* o, const uint8_t* d, size_t n) {
  static const char* H = "0123456789abcdef";
  ob_need(o, 2 * n);
  for (size_t i = 0; i < n; i++) { o->p[o->n++] = H[d[i] >> 4]; o->p[o->n++] = H[d[i] & 15]; }
  o->p[o->n] = 0;
}
static void ob_reset(OB* o) { o->n = 0; if (o->p) o->p[0] = 0; }

/* ---------- hex ---------- */
static int hexval(int c) { if (c >= '0' && c <= '9') return c - '0'; if (c >= 'a' && c <= 'f') return c - 'a' + 10; if (c >= 'A' && c <= 'F') return c - 'A' + 10; return -1; }
/* decodes hex string s (may be "-" or "" for empty); returns malloc'd buffer (always NUL-terminated), length in *n */
static uint8_t* unhex(const char* s, size_t* n) {
  size_t l = strlen(s);
  if (l == 1 && s[0] == '-') l = 0;
  uint8_t* b = (uint8_t*) malloc(l / 2 + 1);
  for (size_t i = 0; i < l / 2; i++) b[i] = (uint8_t)((hexval(s[2 * i]) << 4) | hexval(s[2 * i + 1]));
  b[l / 2] = 0; *n = l / 2; return b;
}

/* ---------- wrapped allocator (link with -Wl,--wrap=malloc,--wrap=calloc,--wrap=realloc,--wrap=free,--wrap=strdup,--wrap=strndup) ---------- */
extern int yv_alloc_track;        /* 1 while inside a libyara call */
extern long yv_alloc_count;       /* allocations seen while tracking (since last reset) */
extern long yv_fail_at;           /* 1-based index of the allocation to fail, 0 = none */
extern int yv_fail_mode;          /* 0 = only that one, 1 = that one and all later */
extern long yv_live;              /* live tracked allocations */
extern long yv_fail_hits;         /* number of injected failures so far */
void yv_alloc_reset(void);
extern void* yv_fail_bt[12]; extern int yv_fail_bt_n;   /* backtrace of the first injected failure */

/* ---------- harness-owned clock (stopwatch.c is compiled with -Dclock_gettime=yv_clock_gettime) ---------- */
extern int yv_clock_last_id;
extern int yv_clock_virtual;      /* 0 = real clock */
extern long yv_clock_polls;       /* number of clock reads since reset */
extern long yv_clock_jump_at;     /* poll index (1-based) at which time jumps by yv_clock_jump_ns; 0 = never */
extern long long yv_clock_jump_ns;
int yv_clock_gettime(clockid_t id, struct timespec* ts);

#endif
