/* see sched.h.  Hand-off through POSIX semaphores (one gate per thread); the controller is "thread -1". */
#include "yvsched.h"
#include <semaphore.h>
#include <stdio.h>
#include <stdlib.h>
#include <string.h>
#include <unistd.h>

enum { NOTSTARTED, RUNNABLE, BLOCKED, FINISHED, UNBORN };
typedef struct { int state; void* blocked_on; sem_t gate; long npoints; int unlocks; pthread_t handle; int bound; } TH;

static TH th[YV_MAXT];
static int nth;
static int cur = -1;
static int sched_in[YV_MAXPOINTS], nsched;
static sem_t controller_gate;
static uint64_t (*extra_hash)(void);
static void (*invariant_fn)(const char*);
static void (*abs_fn)(char*, int);
static struct { void* m; int owner; } mutexes[8];
static int nmutexes;

int yv_dynamic_threads;   /* 1: threads other than 0 do not exist until yv_thread_register() */
YV_POINT yv_log[YV_MAXPOINTS];
int yv_nlog, yv_deadlock, yv_diverged, yv_active;
void* yv_installed_handler; void* yv_last_saved_old;

static __thread int my_id = -1;

int yv_self(void) { return my_id; }
int yv_unlocks(int tid) { return th[tid].unlocks; }
int yv_mutex_held(void) { for (int i = 0; i < nmutexes; i++) if (mutexes[i].owner >= 0) return 1; return 0; }
void yv_sched_set_hash_fn(uint64_t (*fn)(void)) { extra_hash = fn; }
void yv_sched_set_invariant_fn(void (*fn)(const char*)) { invariant_fn = fn; }
void yv_sched_set_abs_fn(void (*fn)(char*, int)) { abs_fn = fn; }
char yv_status_char(int tid) { int s = th[tid].state; return s == UNBORN ? 'U' : s == BLOCKED ? 'B' : s == FINISHED ? 'D' : 'R'; }
long yv_npoints(int tid) { return th[tid].npoints; }

void yv_sched_reset(int nthreads, const int* schedule, int ns) {
  nth = nthreads; nsched = ns < YV_MAXPOINTS ? ns : YV_MAXPOINTS;
  for (int i = 0; i < nsched; i++) sched_in[i] = schedule[i];
  for (int i = 0; i < YV_MAXT; i++) { th[i].state = (yv_dynamic_threads && i > 0) ? UNBORN : NOTSTARTED; th[i].blocked_on = NULL; th[i].npoints = 0; th[i].unlocks = 0; sem_init(&th[i].gate, 0, 0); }
  sem_init(&controller_gate, 0, 0);
  nmutexes = 0; yv_nlog = 0; yv_deadlock = 0; yv_diverged = 0; cur = -1; yv_active = 1;
}

static uint64_t state_hash(void) {
  uint64_t h = 1469598103934665603ULL;
#define MIXV(v) do { uint64_t x_ = (uint64_t)(v); for (int b_ = 0; b_ < 8; b_++) { h ^= (x_ >> (8 * b_)) & 0xff; h *= 1099511628211ULL; } } while (0)
  for (int i = 0; i < nth; i++) { MIXV(th[i].state); MIXV(th[i].npoints); MIXV(th[i].unlocks); }
  for (int i = 0; i < nmutexes; i++) MIXV(mutexes[i].owner + 1);
  if (extra_hash) MIXV(extra_hash());
  return h;
}

static unsigned enabled_mask(void) {
  unsigned m = 0;
  for (int i = 0; i < nth; i++) if (th[i].state == RUNNABLE || th[i].state == NOTSTARTED) m |= 1u << i;
  return m;
}

/* decide who runs next; called by the current runner (or the controller with me = -1). Returns chosen id or -1. */
static int decide(int me, const char* label) {
  unsigned en = enabled_mask();
  int chosen = -1;
  if (yv_nlog < nsched) {
    chosen = sched_in[yv_nlog];
    if (chosen < 0 || chosen >= nth || !(en >> chosen & 1)) { yv_diverged = 1; chosen = -1; }
  }
  if (chosen < 0) {
    if (me >= 0 && (en >> me & 1)) chosen = me;
    else for (int i = 0; i < nth; i++) if (en >> i & 1) { chosen = i; break; }
  }
  if (yv_nlog < YV_MAXPOINTS) { yv_log[yv_nlog].tid = me; yv_log[yv_nlog].enabled = en; yv_log[yv_nlog].chosen = chosen; yv_log[yv_nlog].label = label; yv_log[yv_nlog].hash = state_hash(); yv_log[yv_nlog].abs[0] = 0; if (abs_fn) abs_fn(yv_log[yv_nlog].abs, (int) sizeof yv_log[yv_nlog].abs); yv_nlog++; }
  return chosen;
}

static void all_done_or_deadlock(void) {
  int fin = 1;
  for (int i = 0; i < nth; i++) if (th[i].state != FINISHED && th[i].state != UNBORN) fin = 0;
  if (!fin) yv_deadlock = 1;
  sem_post(&controller_gate);
}

static void handoff(int me, int next) {
  /* me gives the processor to next (next != me) and waits for its own turn unless it is finished */
  cur = next;
  sem_post(&th[next].gate);
  if (me >= 0 && th[me].state != FINISHED) { sem_wait(&th[me].gate); }
}

void yv_point(const char* label) {
  if (!yv_active || my_id < 0) return;
  int me = my_id;
  th[me].npoints++;
  if (invariant_fn) invariant_fn(label);
  int next = decide(me, label);
  if (next < 0) { all_done_or_deadlock(); sem_wait(&th[me].gate); return; }
  if (next != me) handoff(me, next);
}

void yv_thread_begin(int tid) {
  my_id = tid;
  if (!yv_active) return;
  sem_wait(&th[tid].gate);
  th[tid].state = RUNNABLE;
}

void yv_thread_register(int tid) { if (th[tid].state == UNBORN) th[tid].state = NOTSTARTED; }

/* blocks the calling thread until thread tid has finished */
void yv_join(int tid) {
  if (!yv_active || my_id < 0) return;
  int me = my_id;
  yv_point("join");
  while (th[tid].state != FINISHED) {
    th[me].state = BLOCKED; th[me].blocked_on = &th[tid];
    int next = decide(me, "blocked");
    if (next < 0) { all_done_or_deadlock(); sem_wait(&th[me].gate); }
    else handoff(me, next);
  }
}

void yv_thread_end(void) {
  if (!yv_active || my_id < 0) { my_id = -1; return; }
  int me = my_id;
  th[me].state = FINISHED;
  for (int i = 0; i < nth; i++) if (th[i].state == BLOCKED && th[i].blocked_on == &th[me]) { th[i].state = RUNNABLE; th[i].blocked_on = NULL; }
  if (invariant_fn) invariant_fn("thread-end");
  int next = decide(me, "thread-end");
  my_id = -1;
  if (next < 0) { all_done_or_deadlock(); return; }
  cur = next; sem_post(&th[next].gate);
}

void yv_controller_start(void) {
  int next = decide(-1, "start");
  if (next < 0) { all_done_or_deadlock(); return; }
  cur = next; sem_post(&th[next].gate);
}

void yv_controller_wait(void) { sem_wait(&controller_gate); }

static int mutex_slot(void* m) {
  for (int i = 0; i < nmutexes; i++) if (mutexes[i].m == m) return i;
  if (nmutexes < 8) { mutexes[nmutexes].m = m; mutexes[nmutexes].owner = -1; return nmutexes++; }
  return 0;
}

int yv_mutex_lock(pthread_mutex_t* m) {
#undef pthread_mutex_lock
  if (!yv_active || my_id < 0) return pthread_mutex_lock(m);
  int me = my_id;
  yv_point("lock");
  int s = mutex_slot(m);
  while (mutexes[s].owner >= 0) {
    th[me].state = BLOCKED; th[me].blocked_on = m;
    int next = decide(me, "blocked");
    if (next < 0) { all_done_or_deadlock(); sem_wait(&th[me].gate); }
    else handoff(me, next);
  }
  mutexes[s].owner = me;
  return 0;
}

int yv_mutex_unlock(pthread_mutex_t* m) {
#undef pthread_mutex_unlock
  if (!yv_active || my_id < 0) return pthread_mutex_unlock(m);
  int me = my_id;
  int s = mutex_slot(m);
  mutexes[s].owner = -1;
  th[me].unlocks++;
  for (int i = 0; i < nth; i++) if (th[i].state == BLOCKED && th[i].blocked_on == m) { th[i].state = RUNNABLE; th[i].blocked_on = NULL; }
  yv_point("unlock");
  return 0;
}

int yv_sigaction(int sig, const struct sigaction* act, struct sigaction* old) {
#undef sigaction
  if (yv_active && my_id >= 0) yv_point("sigaction");
  int rc = sigaction(sig, act, old);
  if (sig == SIGBUS) {
    if (old) yv_last_saved_old = (void*) old->sa_sigaction;
    if (act) yv_installed_handler = (void*) act->sa_sigaction;
  }
  return rc;
}

void yv_sem_init(YV_SEM* s, int v) { s->value = v; }
void yv_sem_wait(YV_SEM* s) {
  if (!yv_active || my_id < 0) { s->value--; return; }
  int me = my_id;
  yv_point("sem-wait");
  while (s->value <= 0) {
    th[me].state = BLOCKED; th[me].blocked_on = s;
    int next = decide(me, "blocked");
    if (next < 0) { all_done_or_deadlock(); sem_wait(&th[me].gate); }
    else handoff(me, next);
  }
  s->value--;
}
void yv_sem_post(YV_SEM* s) {
  s->value++;
  if (!yv_active || my_id < 0) return;
  for (int i = 0; i < nth; i++) if (th[i].state == BLOCKED && th[i].blocked_on == s) { th[i].state = RUNNABLE; th[i].blocked_on = NULL; }
  yv_point("sem-post");
}
