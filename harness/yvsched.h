/* Cooperative scheduler over real pthreads: exactly one registered thread runs at a time; hooked operations call
 * yv_point(); the decision at every point comes from a schedule (list of thread ids) and, beyond it, from the default
 * policy "keep running the current thread if it is enabled, else the lowest enabled id". */
#ifndef YV_SCHED_H
#define YV_SCHED_H
#include <pthread.h>
#include <signal.h>
#include <stdint.h>

#define YV_MAXT 6
#define YV_MAXPOINTS 20000

typedef struct { int tid; unsigned enabled; int chosen; const char* label; uint64_t hash; char abs[96]; } YV_POINT;

extern YV_POINT yv_log[YV_MAXPOINTS];
extern int yv_nlog;
extern int yv_deadlock, yv_diverged;
extern int yv_active;            /* 0 = pass-through (no scheduling), 1 = scheduling */

void yv_sched_reset(int nthreads, const int* schedule, int nsched);
void yv_sched_set_hash_fn(uint64_t (*fn)(void));      /* extra observable state mixed into the state hash at every point */
void yv_sched_set_invariant_fn(void (*fn)(const char* label));
void yv_sched_set_abs_fn(void (*fn)(char* buf, int cap));   /* abstract state string recorded at every decision (model binding) */
char yv_status_char(int tid);                          /* U unborn, R ready/runnable, B blocked, D done */
long yv_npoints(int tid);
int yv_self(void);                                     /* id of the calling registered thread, -1 if none */
void yv_thread_begin(int tid);                         /* first call of a registered thread: waits until scheduled */
void yv_thread_end(void);
extern int yv_dynamic_threads;
void yv_thread_register(int tid);                      /* dynamic mode: the thread now exists (may be scheduled) */
void yv_join(int tid);                              /* last call of a registered thread */
void yv_controller_start(void);                        /* called by the controller after creating the threads */
void yv_controller_wait(void);                         /* blocks until all threads finished or a deadlock was declared */
void yv_point(const char* label);
int yv_unlocks(int tid);                               /* number of mutex unlocks performed by the thread so far */
int yv_mutex_held(void);                               /* 1 if some tracked mutex is currently owned */

/* replacements for the functions libyara / the CLI are compiled against (-Dpthread_mutex_lock=yv_mutex_lock ...) */
int yv_mutex_lock(pthread_mutex_t* m);
int yv_mutex_unlock(pthread_mutex_t* m);
int yv_sigaction(int sig, const struct sigaction* act, struct sigaction* old);

/* semaphores for the CLI shim */
typedef struct { int value; } YV_SEM;
void yv_sem_init(YV_SEM* s, int v);
void yv_sem_wait(YV_SEM* s);
void yv_sem_post(YV_SEM* s);

/* what the last sigaction calls did (for the C09 invariants) */
extern void* yv_installed_handler;     /* handler currently installed for SIGBUS as far as the hooked calls tell */
extern void* yv_last_saved_old;        /* sa_sigaction stored into the `old` argument by the last hooked call that asked for it */
#endif
