/* yvw: persistent worker driving the libyara public API from a line protocol.
 * One command per input line, exactly one reply line per command (JSON).
 * All blobs / texts are hex. See DESIGN.md 2.3.  Deterministic: no time, no randomness observable. */
#include <yara.h>
#include <yara/globals.h>
#include <yara/object.h>
#include <fcntl.h>
#include <signal.h>
#include <sys/stat.h>
#include <unistd.h>
#include "yvcommon.h"

#ifdef YARA_VERIF
extern size_t yr_verif_arena_initial_size;
#endif

#define NC 4
#define NR 8
#define NS 8
#define NB 32
static YR_COMPILER* C[NC];
static YR_RULES* R[NR];
static YR_SCANNER* S[NS];
static struct { uint8_t* p; size_t n; } B[NB];
static OB out;
static char tmpdir[512] = "/tmp";

#define API(x) do { yv_alloc_track = 1; x; yv_alloc_track = 0; } while (0)

/* ---------- argument helpers ---------- */
static char* args[64]; static int nargs;
static const char* kv(const char* key) {
  size_t k = strlen(key);
  for (int i = 1; i < nargs; i++) if (!strncmp(args[i], key, k) && args[i][k] == '=') return args[i] + k + 1;
  return NULL;
}
static long kvl(const char* key, long dflt) { const char* v = kv(key); return v ? strtol(v, NULL, 0) : dflt; }

/* ---------- in-memory include files ---------- */
static struct { char* name; char* text; } incs[64]; static int nincs;
static const char* inc_cb(const char* name, const char* calling_file, const char* calling_ns, void* ud) {
  for (int i = 0; i < nincs; i++) if (!strcmp(incs[i].name, name)) return strdup(incs[i].text);
  return NULL;
}
static void inc_free(const char* p, void* ud) { free((void*) p); }

/* ---------- compiler callback ---------- */
static OB cmsgs; static int ncmsgs; static int cb_errors, cb_warnings, cb_bad;
static void comp_cb(int level, const char* file, int line, const YR_RULE* rule, const char* msg, void* ud) {
  int t = yv_alloc_track; yv_alloc_track = 0;
  if (ncmsgs < 40) {
    if (ncmsgs++) ob_putc(&cmsgs, ',');
    ob_putc(&cmsgs, '['); ob_int(&cmsgs, level); ob_putc(&cmsgs, ','); ob_int(&cmsgs, line); ob_putc(&cmsgs, ',');
    ob_jstr(&cmsgs, msg, -1); ob_putc(&cmsgs, ']');
  } else ncmsgs++;
  if (level == YARA_ERROR_LEVEL_ERROR) { cb_errors++; if (msg == NULL || msg[0] == 0 || line < 1) cb_bad++; }
  else cb_warnings++;
  yv_alloc_track = t;
}

/* ---------- object dump (canonical hash of a module's object tree) ---------- */
static uint64_t dh; static long dleaves;
static void dmix(const void* p, size_t n) { const uint8_t* b = (const uint8_t*) p; for (size_t i = 0; i < n; i++) { dh ^= b[i]; dh *= 1099511628211ULL; } }
static void dump_obj(YR_OBJECT* o, int depth) {
  if (o == NULL || depth > 12) return;
  dmix(&o->type, 1);
  if (o->identifier) dmix(o->identifier, strlen(o->identifier));
  switch (o->type) {
  case OBJECT_TYPE_INTEGER: dmix(&o->value.i, 8); if (o->value.i != YR_UNDEFINED) dleaves++; break;
  case OBJECT_TYPE_FLOAT: dmix(&o->value.d, 8); dleaves++; break;
  case OBJECT_TYPE_STRING: if (o->value.ss) { dmix(o->value.ss->c_string, o->value.ss->length); dleaves++; } else dmix("\xff", 1); break;
  case OBJECT_TYPE_STRUCTURE: { YR_STRUCTURE_MEMBER* m = object_as_structure(o)->members; while (m) { dump_obj(m->object, depth + 1); m = m->next; } break; }
  case OBJECT_TYPE_ARRAY: { YR_ARRAY_ITEMS* it = object_as_array(o)->items; if (it) for (int i = 0; i < it->length; i++) { dmix(&i, 4); dump_obj(it->objects[i], depth + 1); } break; }
  case OBJECT_TYPE_DICTIONARY: { YR_DICTIONARY_ITEMS* it = object_as_dictionary(o)->items; if (it) for (int i = 0; i < it->used; i++) { if (it->objects[i].key) dmix(it->objects[i].key->c_string, it->objects[i].key->length); dump_obj(it->objects[i].obj, depth + 1); } break; }
  default: break;
  }
}

/* ---------- scan callback ---------- */
typedef struct {
  int nmsg;            /* messages seen so far in this scan() command (across retries) */
  const char* script;  /* "k:A,k:E" */
  int want_matches, want_dump;
  int first;
  YR_SCAN_CONTEXT* ctx;
  const uint8_t* moddata; size_t moddata_n; const char* modname;
} CBU;
static int script_action(const char* s, int k) {
  while (s && *s) {
    char* e; long i = strtol(s, &e, 10);
    if (*e == ':') { char a = e[1]; if (i == k) return a == 'A' ? CALLBACK_ABORT : a == 'E' ? CALLBACK_ERROR : CALLBACK_CONTINUE; e += 2; }
    if (*e == ',') e++;
    if (e == s) break;
    s = e;
  }
  return CALLBACK_CONTINUE;
}
static void put_rule_name(const YR_RULE* r) {
  OB t = {0}; ob_puts(&t, r->ns && r->ns->name ? r->ns->name : "?"); ob_putc(&t, ':'); ob_puts(&t, r->identifier);
  ob_jstr(&out, t.p, (long) t.n); free(t.p);
}
static int scan_cb(YR_SCAN_CONTEXT* ctx, int msg, void* data, void* ud) {
  int t = yv_alloc_track; yv_alloc_track = 0;
  CBU* u = (CBU*) ud;
  if (!u->first) ob_putc(&out, ','); u->first = 0;
  ob_putc(&out, '[');
  switch (msg) {
  case CALLBACK_MSG_RULE_MATCHING:
  case CALLBACK_MSG_RULE_NOT_MATCHING: {
    YR_RULE* r = (YR_RULE*) data; YR_STRING* s;
    ob_puts(&out, msg == CALLBACK_MSG_RULE_MATCHING ? "\"m\"," : "\"n\",");
    put_rule_name(r);
    if (u->want_matches) {
      ob_puts(&out, ",[");
      int fs = 1;
      yr_rule_strings_foreach(r, s) {
        if (s->chained_to != NULL) continue;
        YR_MATCH* m; int fm = 1;
        if (!fs) ob_putc(&out, ','); fs = 0;
        ob_putc(&out, '['); ob_jstr(&out, s->identifier, -1); ob_puts(&out, ",[");
        for (m = ctx->matches[s->idx].head; m != NULL; m = m->next) { /* includes private matches (the public macro skips them) */
          if (!fm) ob_putc(&out, ','); fm = 0;
          ob_putc(&out, '['); ob_int(&out, m->base + m->offset); ob_putc(&out, ','); ob_int(&out, m->match_length);
          ob_putc(&out, ','); ob_int(&out, m->xor_key); ob_putc(&out, ','); ob_int(&out, m->is_private ? 1 : 0);
          if (u->want_matches > 1) { ob_puts(&out, ",\""); ob_hex(&out, m->data, (size_t) m->data_length); ob_putc(&out, '"'); }
          ob_putc(&out, ']');
        }
        ob_puts(&out, "]]");
      }
      ob_putc(&out, ']');
    }
    break; }
  case CALLBACK_MSG_SCAN_FINISHED: ob_puts(&out, "\"fin\""); break;
  case CALLBACK_MSG_IMPORT_MODULE: {
    YR_MODULE_IMPORT* mi = (YR_MODULE_IMPORT*) data;
    ob_puts(&out, "\"imp\","); ob_jstr(&out, mi->module_name, -1);
    if (u->moddata && u->modname && !strcmp(u->modname, mi->module_name)) { mi->module_data = (void*) u->moddata; mi->module_data_size = u->moddata_n; }
    break; }
  case CALLBACK_MSG_MODULE_IMPORTED: {
    YR_OBJECT* o = (YR_OBJECT*) data;
    ob_puts(&out, "\"imd\","); ob_jstr(&out, o->identifier, -1);
    if (u->want_dump) { dh = 1469598103934665603ULL; dleaves = 0; dump_obj(o, 0); char b[64]; snprintf(b, sizeof b, ",\"%016llx\",%ld", (unsigned long long) dh, dleaves); ob_puts(&out, b); }
    break; }
  case CALLBACK_MSG_TOO_MANY_MATCHES: {
    YR_STRING* s = (YR_STRING*) data;
    ob_puts(&out, "\"tmm\","); put_rule_name(&ctx->rules->rules_table[s->rule_idx]); ob_putc(&out, ','); ob_jstr(&out, s->identifier, -1);
    break; }
  case CALLBACK_MSG_TOO_SLOW_SCANNING: {
    YR_STRING* s = (YR_STRING*) data;
    ob_puts(&out, "\"slow\","); ob_jstr(&out, s->identifier, -1);
    break; }
  case CALLBACK_MSG_CONSOLE_LOG: ob_puts(&out, "\"log\","); ob_jstr(&out, (const char*) data, -1); break;
  default: ob_puts(&out, "\"?\","); ob_int(&out, msg); break;
  }
  ob_putc(&out, ']');
  int act = script_action(u->script, u->nmsg);
  u->nmsg++;
  yv_alloc_track = t;
  return act;
}

/* ---------- block iterator with scripted not-ready answers ---------- */
typedef struct {
  const uint8_t* data; size_t n;
  size_t sizes[16]; size_t bases[16]; size_t offs[16]; int nblocks;
  int pass, pos;                /* pass counts first() calls; pos = next block to hand out */
  int nr[8][17];                /* remaining not-ready answers at (pass,pos) */
  int fetch_null[16];           /* fetch_data returns NULL for this block */
  long calls, notready_given;
  YR_MEMORY_BLOCK blk;
  int have_filesize;
  OB log;
} IT;
static const uint8_t* it_fetch(YR_MEMORY_BLOCK* b) { IT* it = (IT*) b->context; int i = it->pos - 1; if (i < 0 || i >= it->nblocks) return NULL; if (it->fetch_null[i]) return NULL; return it->data + it->offs[i]; }
static YR_MEMORY_BLOCK* it_step(YR_MEMORY_BLOCK_ITERATOR* mi, IT* it) {
  it->calls++;
  int p = it->pass < 8 ? it->pass : 7;
  if (it->pos <= it->nblocks && it->nr[p][it->pos] > 0) { it->nr[p][it->pos]--; it->notready_given++; mi->last_error = ERROR_BLOCK_NOT_READY; return NULL; }
  mi->last_error = ERROR_SUCCESS;
  if (it->pos >= it->nblocks) { it->pos = it->nblocks + 1; return NULL; }
  it->blk.base = it->bases[it->pos]; it->blk.size = it->sizes[it->pos]; it->blk.context = it; it->blk.fetch_data = it_fetch;
  it->pos++;
  return &it->blk;
}
static YR_MEMORY_BLOCK* it_first(YR_MEMORY_BLOCK_ITERATOR* mi) { IT* it = (IT*) mi->context; it->pass++; it->pos = 0; return it_step(mi, it); }
static YR_MEMORY_BLOCK* it_next(YR_MEMORY_BLOCK_ITERATOR* mi) { IT* it = (IT*) mi->context; if (it->pass < 0) it->pass = 0; return it_step(mi, it); }
static uint64_t it_fsize(YR_MEMORY_BLOCK_ITERATOR* mi) { IT* it = (IT*) mi->context; return it->n; }

/* ---------- memory stream ---------- */
typedef struct { uint8_t* p; size_t n, cap, pos; size_t chunk; size_t limit; int fail_after; } MS;
static size_t ms_write(const void* ptr, size_t size, size_t count, void* ud) {
  MS* m = (MS*) ud; size_t k = size * count;
  int t = yv_alloc_track; yv_alloc_track = 0;
  if (m->n + k > m->cap) { m->cap = (m->n + k) * 2 + 64; m->p = (uint8_t*) realloc(m->p, m->cap); }
  yv_alloc_track = t;
  memcpy(m->p + m->n, ptr, k); m->n += k; return count;
}
/* read: delivers at most `chunk` bytes per underlying transfer but loops until the request is satisfied or data ends */
static size_t ms_read(void* ptr, size_t size, size_t count, void* ud) {
  MS* m = (MS*) ud; size_t want = size * count, got = 0;
  while (got < want && m->pos < m->limit) {
    size_t k = want - got; if (m->chunk && k > m->chunk) k = m->chunk; if (k > m->limit - m->pos) k = m->limit - m->pos;
    memcpy((uint8_t*) ptr + got, m->p + m->pos, k); m->pos += k; got += k;
  }
  return size ? got / size : 0;
}

static void set_blob(int b, uint8_t* p, size_t n) { free(B[b].p); B[b].p = p; B[b].n = n; }
static uint64_t fnv(const uint8_t* p, size_t n) { uint64_t h = 1469598103934665603ULL; for (size_t i = 0; i < n; i++) { h ^= p[i]; h *= 1099511628211ULL; } return h; }

static void reply_rc(int rc) { ob_puts(&out, "{\"rc\":"); ob_int(&out, rc); ob_putc(&out, '}'); }

static int define_var(int level, int idx, const char* id, const char* ty, const char* val) {
  int rc = -1; size_t n; uint8_t* sv = NULL;
  if (ty[0] == 's' && strcmp(val, "NULL")) sv = unhex(val, &n);     /* "NULL": a NULL value pointer (compiler and rule-set level reject it with ERROR_INVALID_ARGUMENT) */
  yv_alloc_track = 1;
  switch (level) {
  case 0:
    if (ty[0] == 'i') rc = yr_compiler_define_integer_variable(C[idx], id, strtoll(val, NULL, 0));
    else if (ty[0] == 'b') rc = yr_compiler_define_boolean_variable(C[idx], id, atoi(val));
    else if (ty[0] == 'f') rc = yr_compiler_define_float_variable(C[idx], id, atof(val));
    else rc = yr_compiler_define_string_variable(C[idx], id, (char*) sv);
    break;
  case 1:
    if (ty[0] == 'i') rc = yr_rules_define_integer_variable(R[idx], id, strtoll(val, NULL, 0));
    else if (ty[0] == 'b') rc = yr_rules_define_boolean_variable(R[idx], id, atoi(val));
    else if (ty[0] == 'f') rc = yr_rules_define_float_variable(R[idx], id, atof(val));
    else rc = yr_rules_define_string_variable(R[idx], id, (char*) sv);
    break;
  case 2:
    if (ty[0] == 'i') rc = yr_scanner_define_integer_variable(S[idx], id, strtoll(val, NULL, 0));
    else if (ty[0] == 'b') rc = yr_scanner_define_boolean_variable(S[idx], id, atoi(val));
    else if (ty[0] == 'f') rc = yr_scanner_define_float_variable(S[idx], id, atof(val));
    else rc = yr_scanner_define_string_variable(S[idx], id, (char*) sv);
    break;
  }
  yv_alloc_track = 0;
  free(sv);
  return rc;
}

/* scanner state key for C10: every field that outlives a scan */
static void scanner_state(YR_SCANNER* s) {
  YR_RULES* r = s->rules; uint64_t h = 1469598103934665603ULL; int i;
#define MIX(p, n) do { const uint8_t* b_ = (const uint8_t*) (p); for (size_t i_ = 0; i_ < (size_t)(n); i_++) { h ^= b_[i_]; h *= 1099511628211ULL; } } while (0)
  ob_puts(&out, "{\"entry_point\":"); ob_int(&out, (long long) s->entry_point);
  ob_puts(&out, ",\"file_size\":"); ob_int(&out, (long long) s->file_size);
  ob_puts(&out, ",\"flags\":"); ob_int(&out, s->flags);
  ob_puts(&out, ",\"timeout\":"); ob_int(&out, (long long) s->timeout);
  ob_puts(&out, ",\"notebook\":"); ob_int(&out, s->matches_notebook != NULL);
  MIX(s->rule_matches_flags, sizeof(YR_BITMASK) * YR_BITMASK_SIZE(r->num_rules));
  MIX(s->ns_unsatisfied_flags, sizeof(YR_BITMASK) * YR_BITMASK_SIZE(r->num_namespaces));
  MIX(s->strings_temp_disabled, sizeof(YR_BITMASK) * YR_BITMASK_SIZE(r->num_strings));
  MIX(s->required_eval, sizeof(YR_BITMASK) * YR_BITMASK_SIZE(r->num_rules));
  long heads = 0;
  for (i = 0; i < (int) r->num_strings; i++) { if (s->matches[i].head || s->matches[i].count) heads++; if (s->unconfirmed_matches[i].head || s->unconfirmed_matches[i].count) heads++; }
  ob_puts(&out, ",\"bits\":\""); char b[32]; snprintf(b, sizeof b, "%016llx", (unsigned long long) h); ob_puts(&out, b);
  ob_puts(&out, "\",\"heads\":"); ob_int(&out, heads);
  { long objs = 0; YR_HASH_TABLE* t = s->objects_table; for (i = 0; t && i < t->size; i++) { YR_HASH_TABLE_ENTRY* e = t->buckets[i]; while (e) { objs++; e = e->next; } }
    ob_puts(&out, ",\"objects\":"); ob_int(&out, objs); }
  ob_puts(&out, ",\"fibers\":"); ob_int(&out, s->re_fiber_pool.fiber_count);
  ob_puts(&out, ",\"iter\":"); ob_int(&out, 0);
  ob_putc(&out, '}');
}

static void rules_info(YR_RULES* rules) {
  YR_RULE* r; int fr = 1;
  ob_puts(&out, "{\"rules\":[");
  yr_rules_foreach(rules, r) {
    const char* tag; YR_META* m; YR_STRING* s; int f;
    if (!fr) ob_putc(&out, ','); fr = 0;
    ob_putc(&out, '['); put_rule_name(r); ob_putc(&out, ','); ob_int(&out, r->flags & (RULE_FLAGS_PRIVATE | RULE_FLAGS_GLOBAL));
    ob_puts(&out, ",["); f = 1;
    yr_rule_tags_foreach(r, tag) { if (!f) ob_putc(&out, ','); f = 0; ob_jstr(&out, tag, -1); }
    ob_puts(&out, "],["); f = 1;
    yr_rule_metas_foreach(r, m) { if (!f) ob_putc(&out, ','); f = 0; ob_putc(&out, '['); ob_jstr(&out, m->identifier, -1); ob_putc(&out, ','); ob_int(&out, m->type); ob_putc(&out, ',');
      if (m->type == META_TYPE_STRING) ob_jstr(&out, m->string, -1); else ob_int(&out, m->integer); ob_putc(&out, ']'); }
    ob_puts(&out, "],["); f = 1;
    yr_rule_strings_foreach(r, s) { if (!f) ob_putc(&out, ','); f = 0; ob_putc(&out, '['); ob_jstr(&out, s->identifier, -1); ob_putc(&out, ','); ob_int(&out, s->flags); ob_putc(&out, ','); ob_int(&out, s->length); ob_putc(&out, ']'); }
    ob_puts(&out, "]]");
  }
  ob_puts(&out, "],\"ext\":[");
  YR_EXTERNAL_VARIABLE* e = rules->ext_vars_table; int f = 1;
  while (e && !EXTERNAL_VARIABLE_IS_NULL(e)) {
    if (!f) ob_putc(&out, ','); f = 0;
    ob_putc(&out, '['); ob_jstr(&out, e->identifier, -1); ob_putc(&out, ','); ob_int(&out, e->type); ob_putc(&out, ',');
    if (e->type == EXTERNAL_VARIABLE_TYPE_STRING || e->type == EXTERNAL_VARIABLE_TYPE_MALLOC_STRING) ob_jstr(&out, e->value.s, -1);
    else if (e->type == EXTERNAL_VARIABLE_TYPE_FLOAT) { char b[64]; snprintf(b, sizeof b, "\"%.17g\"", e->value.f); ob_puts(&out, b); }
    else ob_int(&out, e->value.i);
    ob_putc(&out, ']'); e++;
  }
  ob_puts(&out, "],\"num_rules\":"); ob_int(&out, rules->num_rules);
  ob_puts(&out, ",\"num_strings\":"); ob_int(&out, rules->num_strings);
  ob_puts(&out, ",\"num_namespaces\":"); ob_int(&out, rules->num_namespaces);
  ob_putc(&out, '}');
}

static void do_scan(void) {
  const char* target = kv("target"); const char* via = kv("via"); const char* data = kv("data");
  if (!target || !via || !data) { ob_puts(&out, "{\"err\":\"scan args\"}"); return; }
  if ((target[0] == 'r' && R[atoi(target + 1)] == NULL) || (target[0] == 's' && S[atoi(target + 1)] == NULL)) { ob_puts(&out, "{\"t\":[],\"rc\":-2,\"err\":\"no such object\"}"); return; }
  int idx = atoi(target + 1); int rules_level = target[0] == 'r';
  size_t n = 0; uint8_t* buf = NULL; int owned = 1;
  if (data[0] == '@') { int b = atoi(data + 1); n = B[b].n; buf = (uint8_t*) malloc(n + 1); memcpy(buf, B[b].p, n); }
  else buf = unhex(data, &n);
  /* mutations: trunc=N ; set=off:hex[,off:hex] */
  long tr = kvl("trunc", -1); if (tr >= 0 && (size_t) tr < n) n = (size_t) tr;
  const char* st = kv("set");
  while (st && *st) { char* e; long off = strtol(st, &e, 10); if (*e != ':') break; e++; while (hexval(e[0]) >= 0 && hexval(e[1]) >= 0) { if (off >= 0 && (size_t) off < n) buf[off] = (uint8_t)((hexval(e[0]) << 4) | hexval(e[1])); off++; e += 2; } if (*e == ',') e++; st = e; }
  /* exact-size heap copy so that ASan sees the true end of the buffer */
  uint8_t* exact = (uint8_t*) malloc(n ? n : 1); memcpy(exact, buf, n); free(buf); buf = exact;

  CBU u; memset(&u, 0, sizeof u); u.script = kv("cb"); u.want_matches = (int) kvl("ml", 1); u.want_dump = (int) kvl("dump", 0); u.first = 1;
  size_t mdn = 0; uint8_t* md = NULL; const char* mds = kv("moddata"); if (mds) { md = unhex(mds, &mdn); u.moddata = md; u.moddata_n = mdn; u.modname = kv("modname"); }
  int flags = (int) kvl("flags", -1); int timeout = (int) kvl("timeout", -1);
  const char* clk = kv("clock");
  yv_clock_virtual = 0; yv_clock_polls = 0; yv_clock_jump_at = 0;
  if (clk) { yv_clock_virtual = 1; char* e; yv_clock_jump_at = strtol(clk, &e, 10); yv_clock_jump_ns = (*e == ':') ? strtoll(e + 1, NULL, 10) : 0; }
  int maxcalls = (int) kvl("maxcalls", 64);
  int abandon_after = (int) kvl("abandon", -1); /* stop re-invoking after this many BLOCK_NOT_READY returns */

  ob_puts(&out, "{\"t\":[");
  int rc = -1; OB rcs = {0}; int ncalls = 0;
  YR_SCANNER* sc = rules_level ? NULL : S[idx];
  if (!rules_level) {
    yr_scanner_set_callback(sc, scan_cb, &u);
    if (flags >= 0) yr_scanner_set_flags(sc, flags);
    if (timeout >= 0) yr_scanner_set_timeout(sc, timeout);
  }
  if (flags < 0) flags = 0; if (timeout < 0) timeout = 0;
  char path[600]; snprintf(path, sizeof path, "%s/yvw_scan_%d.bin", tmpdir, (int) getpid());
  if (!strcmp(via, "mem")) {
    if (rules_level) API(rc = yr_rules_scan_mem(R[idx], buf, n, flags, scan_cb, &u, timeout));
    else API(rc = yr_scanner_scan_mem(sc, buf, n));
    ncalls = 1;
  } else if (!strcmp(via, "file") || !strcmp(via, "fd")) {
    FILE* f = fopen(path, "wb"); fwrite(buf, 1, n, f); fclose(f);
    if (!strcmp(via, "file")) {
      if (rules_level) API(rc = yr_rules_scan_file(R[idx], path, flags, scan_cb, &u, timeout));
      else API(rc = yr_scanner_scan_file(sc, path));
    } else {
      int fd = open(path, O_RDONLY);
      if (rules_level) API(rc = yr_rules_scan_fd(R[idx], fd, flags, scan_cb, &u, timeout));
      else API(rc = yr_scanner_scan_fd(sc, fd));
      close(fd);
    }
    unlink(path); ncalls = 1;
  } else if (!strcmp(via, "blocks")) {
    IT it; memset(&it, 0, sizeof it); it.data = buf; it.n = n; it.pass = -1;
    const char* bs = kv("blocks"); size_t off = 0;
    /* blocks=3,2,g4,1 : sizes; gN = address gap of N bytes before the next block (data stays contiguous) */
    size_t addr = 0;
    while (bs && *bs && it.nblocks < 16) {
      char* e;
      if (*bs == 'g') { addr += (size_t) strtol(bs + 1, &e, 10); }
      else if (*bs == 'x') { long k = strtol(bs + 1, &e, 10); it.fetch_null[it.nblocks] = 1; it.sizes[it.nblocks] = (size_t) k; it.bases[it.nblocks] = addr; it.offs[it.nblocks] = off; off += (size_t) k; addr += (size_t) k; it.nblocks++; }
      else { long k = strtol(bs, &e, 10); if (e == bs) break; it.sizes[it.nblocks] = (size_t) k; it.bases[it.nblocks] = addr; it.offs[it.nblocks] = off; off += (size_t) k; addr += (size_t) k; it.nblocks++; }
      if (*e == ',') e++; bs = e;
    }
    if (!kv("blocks")) { it.nblocks = 1; it.sizes[0] = n; }
    const char* nr = kv("nr"); /* nr=pass.pos.r;pass.pos.r */
    while (nr && *nr) { int p, q, r2, k = 0; if (sscanf(nr, "%d.%d.%d%n", &p, &q, &r2, &k) < 3) break; if (p >= 0 && p < 8 && q >= 0 && q < 17) it.nr[p][q] = r2; nr += k; if (*nr == ';') nr++; }
    YR_MEMORY_BLOCK_ITERATOR mi; memset(&mi, 0, sizeof mi);
    mi.context = &it; mi.first = it_first; mi.next = it_next; mi.last_error = ERROR_SUCCESS;
    mi.file_size = kvl("nofilesize", 0) ? NULL : it_fsize;
    do {
      int before = u.nmsg;
      if (rules_level) API(rc = yr_rules_scan_mem_blocks(R[idx], &mi, flags, scan_cb, &u, timeout));
      else API(rc = yr_scanner_scan_mem_blocks(sc, &mi));
      if (ncalls) ob_putc(&rcs, ','); ob_putc(&rcs, '['); ob_int(&rcs, rc); ob_putc(&rcs, ','); ob_int(&rcs, u.nmsg - before); ob_putc(&rcs, ']');
      ncalls++;
      if (abandon_after >= 0 && ncalls > abandon_after) break;
    } while (rc == ERROR_BLOCK_NOT_READY && ncalls < maxcalls && !rules_level);
    ob_puts(&out, "],\"calls\":["); ob_puts(&out, rcs.p ? rcs.p : "");
    ob_puts(&out, "],\"itcalls\":"); ob_int(&out, it.calls); ob_puts(&out, ",\"passes\":"); ob_int(&out, it.pass + 1);
    ob_puts(&out, ",\"nrgiven\":"); ob_int(&out, it.notready_given);
    ob_puts(&out, ",\"x\":[0");
    free(rcs.p);
  } else { ob_puts(&out, "],\"err\":\"via\"}"); free(buf); free(md); return; }
  ob_puts(&out, "],\"rc\":"); ob_int(&out, rc);
  ob_puts(&out, ",\"polls\":"); ob_int(&out, yv_clock_polls);
  ob_puts(&out, ",\"clk\":"); ob_int(&out, yv_clock_last_id);
  if (sc) { YR_RULE* er = yr_scanner_last_error_rule(sc); YR_STRING* es = yr_scanner_last_error_string(sc);
    if (er) { ob_puts(&out, ",\"errule\":"); ob_jstr(&out, er->identifier, -1); }
    if (es) { ob_puts(&out, ",\"erstr\":"); ob_jstr(&out, es->identifier, -1); } }
  ob_putc(&out, '}');
  if (kvl("brief", 0)) {   /* compact reply: return code + hash of the full observation (bulk enumerations) */
    uint64_t h = fnv((const uint8_t*) out.p, out.n); char b[96];
    snprintf(b, sizeof b, "{\"rc\":%d,\"h\":\"%016llx\",\"nmsg\":%d}", rc, (unsigned long long) h, u.nmsg);
    ob_reset(&out); ob_puts(&out, b);
  }
  yv_clock_virtual = 0;
  free(buf); free(md);
}

int main(int argc, char** argv) {
  char* line = NULL; size_t cap = 0; ssize_t len;
  if (argc > 1) snprintf(tmpdir, sizeof tmpdir, "%s", argv[1]);
  setvbuf(stdout, NULL, _IOFBF, 1 << 16);
#ifdef YV_YYDEBUG
  { extern int yara_yydebug, hex_yydebug, re_yydebug; yara_yydebug = hex_yydebug = re_yydebug = 1; }
#endif
  yv_alloc_reset();
  int inited = 0;
  if (!(argc > 2 && !strcmp(argv[2], "noinit"))) { API(yr_initialize()); inited = 1; }
  while ((len = getline(&line, &cap, stdin)) > 0) {
    while (len > 0 && (line[len - 1] == '\n' || line[len - 1] == '\r')) line[--len] = 0;
    nargs = 0; char* p = line;
    while (*p && nargs < 64) { while (*p == ' ') p++; if (!*p) break; args[nargs++] = p; while (*p && *p != ' ') p++; if (*p) *p++ = 0; }
    ob_reset(&out);
    if (nargs == 0) { ob_puts(&out, "{}"); goto reply; }
    const char* c = args[0];
#define A(i) (nargs > (i) ? args[i] : "")
#define AI(i) (nargs > (i) ? atoi(args[i]) : 0)
    if (!strcmp(c, "ping")) ob_puts(&out, "{\"pong\":1}");
    else if (!strcmp(c, "init")) { int rc; API(rc = yr_initialize()); inited = 1; reply_rc(rc); }
    else if (!strcmp(c, "fini")) { int rc; API(rc = yr_finalize()); inited = 0; reply_rc(rc); }
    else if (!strcmp(c, "cfg")) {
      int rc = -1; uint32_t v = (uint32_t) strtoul(A(2), NULL, 0); uint64_t v64 = strtoull(A(2), NULL, 0);
      if (!strcmp(A(1), "stack")) API(rc = yr_set_configuration(YR_CONFIG_STACK_SIZE, &v));
      else if (!strcmp(A(1), "maxstrings")) API(rc = yr_set_configuration(YR_CONFIG_MAX_STRINGS_PER_RULE, &v));
      else if (!strcmp(A(1), "matchdata")) API(rc = yr_set_configuration(YR_CONFIG_MAX_MATCH_DATA, &v));
      else if (!strcmp(A(1), "chunk")) API(rc = yr_set_configuration(YR_CONFIG_MAX_PROCESS_MEMORY_CHUNK, &v64));
      reply_rc(rc);
    }
    else if (!strcmp(c, "compiler")) {
      int i = AI(1), rc;
#ifdef YARA_VERIF
      yr_verif_arena_initial_size = (size_t) kvl("arena", 0);
#endif
      if (C[i]) { API(yr_compiler_destroy(C[i])); C[i] = NULL; }
      API(rc = yr_compiler_create(&C[i]));
      if (rc != ERROR_SUCCESS) C[i] = NULL;
      else { C[i]->strict_escape = kvl("strict", 0) != 0; yr_compiler_set_callback(C[i], comp_cb, NULL); if (kvl("inc", 0)) yr_compiler_set_include_callback(C[i], inc_cb, inc_free, NULL); }
#ifdef YARA_VERIF
      yr_verif_arena_initial_size = 0;
#endif
      reply_rc(rc);
    }
    else if (!strcmp(c, "cdestroy")) { int i = AI(1); if (C[i]) { API(yr_compiler_destroy(C[i])); C[i] = NULL; } reply_rc(0); }
    else if (!strcmp(c, "atomq") && !C[AI(1)]) reply_rc(-2);
    else if (!strcmp(c, "atomq")) {
      int i = AI(1); size_t n; uint8_t* t = unhex(A(2), &n); char path[600]; snprintf(path, sizeof path, "%s/yvw_atomq_%d.bin", tmpdir, (int) getpid());
      FILE* f = fopen(path, "wb"); fwrite(t, 1, n, f); fclose(f); free(t);
      int rc; API(rc = yr_compiler_load_atom_quality_table(C[i], path, (unsigned char) AI(3))); unlink(path); reply_rc(rc);
    }
    else if ((!strcmp(c, "defc") && !C[AI(1)]) || (!strcmp(c, "defr") && !R[AI(1)]) || (!strcmp(c, "defs") && !S[AI(1)])) reply_rc(-2);
    else if (!strcmp(c, "defc")) reply_rc(define_var(0, AI(1), A(2), A(3), A(4)));
    else if (!strcmp(c, "defr")) reply_rc(define_var(1, AI(1), A(2), A(3), A(4)));
    else if (!strcmp(c, "defs")) reply_rc(define_var(2, AI(1), A(2), A(3), A(4)));
    else if (!strcmp(c, "incfile")) { size_t n; if (nincs < 64) { incs[nincs].name = strdup(A(1)); incs[nincs].text = (char*) unhex(A(2), &n); nincs++; } reply_rc(0); }
    else if (!strcmp(c, "incclear")) { for (int i = 0; i < nincs; i++) { free(incs[i].name); free(incs[i].text); } nincs = 0; reply_rc(0); }
    else if (!strcmp(c, "add") && (!C[AI(1)] || C[AI(1)]->errors != 0)) { ob_puts(&out, "{\"errors\":-2,\"skipped\":1,\"msgs\":[]}"); /* API contract: no add after a failed add */ }
    else if (!strcmp(c, "add")) {
      int i = AI(1); size_t n; uint8_t* t = unhex(A(3), &n); const char* ns = strcmp(A(2), "-") ? A(2) : NULL; int e = -1;
      ob_reset(&cmsgs); ncmsgs = 0; cb_errors = cb_warnings = cb_bad = 0;
      const char* mode = kv("mode");
      if (mode && !strcmp(mode, "bytes")) API(e = yr_compiler_add_bytes(C[i], t, n, ns));
      else if (mode && !strcmp(mode, "file")) {
        char path[600]; snprintf(path, sizeof path, "%s/yvw_src_%d.yar", tmpdir, (int) getpid());
        FILE* f = fopen(path, "wb"); fwrite(t, 1, n, f); fclose(f); f = fopen(path, "rb");
        API(e = yr_compiler_add_file(C[i], f, ns, path)); fclose(f); unlink(path);
      }
      else API(e = yr_compiler_add_string(C[i], (const char*) t, ns));
      free(t);
      char em[256]; em[0] = 0; if (e) API(yr_compiler_get_error_message(C[i], em, sizeof em));
      ob_puts(&out, "{\"errors\":"); ob_int(&out, e); ob_puts(&out, ",\"cb_errors\":"); ob_int(&out, cb_errors);
      ob_puts(&out, ",\"cb_warnings\":"); ob_int(&out, cb_warnings); ob_puts(&out, ",\"cb_bad\":"); ob_int(&out, cb_bad);
      ob_puts(&out, ",\"last\":"); ob_int(&out, C[i]->last_error); ob_puts(&out, ",\"lastmsg\":"); ob_jstr(&out, em, -1);
      ob_puts(&out, ",\"msgs\":["); ob_puts(&out, cmsgs.p ? cmsgs.p : ""); ob_puts(&out, "]}");
    }
    else if (!strcmp(c, "getrules") && (!C[AI(1)] || C[AI(1)]->errors != 0)) { reply_rc(-2); /* yr_compiler_get_rules asserts errors == 0 */ }
    else if (!strcmp(c, "getrules")) { int i = AI(1), r = AI(2), rc; if (R[r]) { API(yr_rules_destroy(R[r])); R[r] = NULL; } API(rc = yr_compiler_get_rules(C[i], &R[r])); if (rc) R[r] = NULL; reply_rc(rc); }
    else if (!strcmp(c, "rdestroy")) { int r = AI(1); if (R[r]) { API(yr_rules_destroy(R[r])); R[r] = NULL; } reply_rc(0); }
    else if ((!strcmp(c, "save") || !strcmp(c, "savefile") || !strcmp(c, "stats")) && !R[AI(1)]) reply_rc(-2);
    else if (!strcmp(c, "save")) {
      int r = AI(1), b = AI(2), rc; MS m; memset(&m, 0, sizeof m); YR_STREAM st; st.user_data = &m; st.write = ms_write; st.read = NULL;
      API(rc = yr_rules_save_stream(R[r], &st));
      set_blob(b, m.p, m.n);
      ob_puts(&out, "{\"rc\":"); ob_int(&out, rc); ob_puts(&out, ",\"len\":"); ob_int(&out, (long long) m.n);
      char hb[40]; snprintf(hb, sizeof hb, ",\"hash\":\"%016llx\"}", (unsigned long long) fnv(m.p, m.n)); ob_puts(&out, hb);
    }
    else if (!strcmp(c, "savefile")) {
      int r = AI(1), b = AI(2), rc; char path[600]; snprintf(path, sizeof path, "%s/yvw_rules_%d.yarc", tmpdir, (int) getpid());
      long pre = kvl("pre", -1);   /* pre=N: the destination already exists and holds N bytes */
      if (pre >= 0) { FILE* pf = fopen(path, "wb"); if (pf) { for (long i = 0; i < pre; i++) fputc(0xAB, pf); fclose(pf); } }
      API(rc = yr_rules_save(R[r], path));
      FILE* f = fopen(path, "rb"); uint8_t* p = NULL; size_t n = 0;
      if (f) { fseek(f, 0, SEEK_END); n = (size_t) ftell(f); fseek(f, 0, SEEK_SET); p = (uint8_t*) malloc(n + 1); if (fread(p, 1, n, f) != n) n = 0; fclose(f); unlink(path); }
      set_blob(b, p, n);
      ob_puts(&out, "{\"rc\":"); ob_int(&out, rc); ob_puts(&out, ",\"len\":"); ob_int(&out, (long long) n); ob_putc(&out, '}');
    }
    else if (!strcmp(c, "load")) {
      int r = AI(1), b = AI(2), rc; MS m; memset(&m, 0, sizeof m);
      m.p = B[b].p; m.n = B[b].n; m.chunk = (size_t) kvl("chunk", 0); long pre = kvl("prefix", -1); m.limit = (pre >= 0 && (size_t) pre < m.n) ? (size_t) pre : m.n;
      if (R[r]) { API(yr_rules_destroy(R[r])); R[r] = NULL; }
      YR_RULES* nr = (YR_RULES*) (uintptr_t) 0x5a5a;
      if (kvl("file", 0)) {
        char path[600]; snprintf(path, sizeof path, "%s/yvw_load_%d.yarc", tmpdir, (int) getpid());
        FILE* f = fopen(path, "wb"); fwrite(m.p, 1, m.limit, f); fclose(f);
        API(rc = yr_rules_load(path, &nr)); unlink(path);
      } else {
        YR_STREAM st; st.user_data = &m; st.read = ms_read; st.write = NULL;
        API(rc = yr_rules_load_stream(&st, &nr));
      }
      if (rc == ERROR_SUCCESS) R[r] = nr;
      reply_rc(rc);
    }
    else if (!strcmp(c, "blob")) { int b = AI(1); size_t n; uint8_t* p = unhex(A(2), &n); set_blob(b, p, n); reply_rc(0); }
    else if (!strcmp(c, "blobfile")) { int b = AI(1); FILE* f = fopen(A(2), "rb"); if (!f) reply_rc(-1); else { fseek(f, 0, SEEK_END); size_t n = (size_t) ftell(f); fseek(f, 0, SEEK_SET); uint8_t* p = (uint8_t*) malloc(n + 1); if (fread(p, 1, n, f) != n) n = 0; fclose(f); set_blob(b, p, n); ob_puts(&out, "{\"rc\":0,\"len\":"); ob_int(&out, (long long) n); ob_putc(&out, '}'); } }
    else if (!strcmp(c, "blobget")) { int b = AI(1); ob_puts(&out, "{\"hex\":\""); ob_hex(&out, B[b].p, B[b].n); ob_puts(&out, "\"}"); }
    else if (!strcmp(c, "blobpatch")) { int b = AI(1); long off = atol(A(2)); size_t n; uint8_t* p = unhex(A(3), &n); if (off >= 0 && (size_t) off + n <= B[b].n) memcpy(B[b].p + off, p, n); free(p); reply_rc(0); }
    else if (!strcmp(c, "blobcopy")) { int a = AI(1), b = AI(2); uint8_t* p = (uint8_t*) malloc(B[a].n + 1); memcpy(p, B[a].p, B[a].n); set_blob(b, p, B[a].n); reply_rc(0); }
    else if (!strcmp(c, "blobcmp")) { int a = AI(1), b = AI(2); int eq = B[a].n == B[b].n && (B[a].n == 0 || !memcmp(B[a].p, B[b].p, B[a].n)); long fd = -1; if (!eq) { size_t k = 0; while (k < B[a].n && k < B[b].n && B[a].p[k] == B[b].p[k]) k++; fd = (long) k; } ob_puts(&out, "{\"eq\":"); ob_int(&out, eq); ob_puts(&out, ",\"firstdiff\":"); ob_int(&out, fd); ob_puts(&out, ",\"la\":"); ob_int(&out, (long long) B[a].n); ob_puts(&out, ",\"lb\":"); ob_int(&out, (long long) B[b].n); ob_putc(&out, '}'); }
    else if (!strcmp(c, "scanner") && R[AI(2)] == NULL) { reply_rc(-2); }
    else if (!strcmp(c, "scanner")) { int s = AI(1), r = AI(2), rc; if (S[s]) { API(yr_scanner_destroy(S[s])); S[s] = NULL; } API(rc = yr_scanner_create(R[r], &S[s])); if (rc) S[s] = NULL; reply_rc(rc); }
    else if (!strcmp(c, "sdestroy")) { int s = AI(1); if (S[s]) { API(yr_scanner_destroy(S[s])); S[s] = NULL; } reply_rc(0); }
    else if (!strcmp(c, "sflags")) { yr_scanner_set_flags(S[AI(1)], AI(2)); reply_rc(0); }
    else if (!strcmp(c, "stimeout")) { yr_scanner_set_timeout(S[AI(1)], AI(2)); reply_rc(0); }
    else if (!strcmp(c, "sstate")) scanner_state(S[AI(1)]);
    else if (!strcmp(c, "info") && !R[AI(1)]) reply_rc(-2);
    else if (!strcmp(c, "info")) rules_info(R[AI(1)]);
    else if (!strcmp(c, "stats")) { YR_RULES_STATS st; int rc; API(rc = yr_rules_get_stats(R[AI(1)], &st)); ob_puts(&out, "{\"rc\":"); ob_int(&out, rc); ob_puts(&out, ",\"rules\":"); ob_int(&out, st.num_rules); ob_puts(&out, ",\"strings\":"); ob_int(&out, st.num_strings); ob_puts(&out, ",\"ac_matches\":"); ob_int(&out, st.ac_matches); ob_putc(&out, '}'); }
    else if (!strcmp(c, "scan")) do_scan();
    else if (!strcmp(c, "live")) { ob_puts(&out, "{\"live\":"); ob_int(&out, yv_live); ob_puts(&out, ",\"count\":"); ob_int(&out, yv_alloc_count); ob_puts(&out, ",\"hits\":"); ob_int(&out, yv_fail_hits); ob_putc(&out, '}'); }
    else if (!strcmp(c, "failsite")) {
      extern char __executable_start; char b[40];
      ob_puts(&out, "{\"bt\":[");
      for (int i = 0; i < yv_fail_bt_n; i++) { snprintf(b, sizeof b, "%s\"0x%lx\"", i ? "," : "", (unsigned long)((char*) yv_fail_bt[i] - &__executable_start)); ob_puts(&out, b); }
      ob_puts(&out, "]}");
    }
    else if (!strcmp(c, "failat")) { if (atol(A(1)) != 0) { yv_fail_bt_n = 0; yv_alloc_count = 0; yv_fail_hits = 0; } yv_fail_at = atol(A(1)); yv_fail_mode = AI(2); reply_rc(0); }
    else if (!strcmp(c, "reset")) {
      for (int i = 0; i < NS; i++) if (S[i]) { API(yr_scanner_destroy(S[i])); S[i] = NULL; }
      for (int i = 0; i < NR; i++) if (R[i]) { API(yr_rules_destroy(R[i])); R[i] = NULL; }
      for (int i = 0; i < NC; i++) if (C[i]) { API(yr_compiler_destroy(C[i])); C[i] = NULL; }
      reply_rc(0);
    }
    else if (!strcmp(c, "quit")) break;
    else { ob_puts(&out, "{\"err\":\"unknown command\"}"); }
  reply:
    fputs(out.p ? out.p : "{}", stdout); fputc('\n', stdout);
    if (!kv("noflush")) fflush(stdout);
  }
  fflush(stdout);
  return 0;
}
