"""Synthetic .NET image for C06: a compact (about 1.3 KiB), sectionless PE (every RVA equals the file offset) whose metadata uses the
constructs that libyara/modules/dotnet/dotnet.c walks recursively or in loops - and that the in-tree samples lack:
  TypeDef rows that extend / implement TypeSpec rows, TypeSpec signatures that name other TypeSpec rows (chain TS#1 -> TS#2 -> TypeRef,
  so a reference cycle is ONE byte away: 05 -> 06), GENERICINST / SZARRAY / VALUETYPE / MVAR signatures, a generic class and a generic
  method (GenericParam + GenericParamConstraint), a nested class, Field / MethodDef / Param rows, MemberRef + CustomAttribute (GuidAttribute ->
  typelib), ModuleRef, Assembly / AssemblyRef, a ManifestResource, #US and #GUID heaps.
Row layouts follow ECMA-335 II.22 with 2-byte heap and table indexes (all heaps < 64 KiB, all tables < 2^11 rows)."""
import struct


def _u16(v): return struct.pack("<H", v)
def _u32(v): return struct.pack("<I", v)


class Heap:
    def __init__(self, first=b"\0"):
        self.b = bytearray(first); self.idx = {}

    def add(self, data):
        if data in self.idx: return self.idx[data]
        off = len(self.b); self.b += data; self.idx[data] = off
        return off


def build():
    S = Heap(); B = Heap(); US = Heap()
    def s(name): return S.add(name.encode() + b"\0") if name else 0
    def blob(data): return B.add(bytes([len(data)]) + bytes(data))
    # coded indexes
    TDR = lambda tag, row: (row << 2) | tag            # TypeDefOrRef: 0 TypeDef, 1 TypeRef, 2 TypeSpec
    T = {}
    # ---- TypeRef (ResolutionScope: tag 2 = AssemblyRef)
    T[0x01] = [_u16((1 << 2) | 2) + _u16(s("Object")) + _u16(s("System")),
               _u16((1 << 2) | 2) + _u16(s("IDisposable")) + _u16(s("System")),
               _u16((1 << 2) | 2) + _u16(s("GuidAttribute")) + _u16(s("System.Runtime.InteropServices"))]
    # ---- TypeSpec blobs: TS#1 = SZARRAY CLASS TS#2 ; TS#2 = CLASS TypeRef#1 (05; 06 would be CLASS TS#1: a cycle) ; TS#3 = GENERICINST CLASS TypeDef#3 <CLASS TS#1>
    ts1 = blob([0x1d, 0x12, TDR(2, 2)]); ts2 = blob([0x12, TDR(1, 1)]); ts3 = blob([0x15, 0x12, TDR(0, 3), 0x01, 0x12, TDR(2, 1)])
    T[0x1B] = [_u16(ts1), _u16(ts2), _u16(ts3)]
    # ---- TypeDef: <Module>, NS.A : TS#1 (1 field, 2 methods), NS.B`1 : Object (generic), NS.A/Inner (nested, extends TS#3)
    T[0x02] = [_u32(0) + _u16(s("<Module>")) + _u16(0) + _u16(0) + _u16(1) + _u16(1),
               _u32(0x00100001) + _u16(s("A")) + _u16(s("NS")) + _u16(TDR(2, 1)) + _u16(1) + _u16(1),
               _u32(0x00100001) + _u16(s("B`1")) + _u16(s("NS")) + _u16(TDR(1, 1)) + _u16(2) + _u16(3),
               _u32(0x00100002) + _u16(s("Inner")) + _u16(0) + _u16(TDR(2, 3)) + _u16(2) + _u16(3)]
    # ---- Field
    T[0x04] = [_u16(0x0006) + _u16(s("f")) + _u16(blob([0x06, 0x08]))]
    # ---- MethodDef: M1(Object, A[]) ; M2<U>(B<int>) : U
    m1 = blob([0x00, 0x02, 0x01, 0x12, TDR(1, 1), 0x1d, 0x11, TDR(0, 2)])
    m2 = blob([0x10, 0x01, 0x01, 0x1e, 0x00, 0x15, 0x12, TDR(0, 3), 0x01, 0x08])
    T[0x06] = [_u32(0) + _u16(0) + _u16(0x0006) + _u16(s("M1")) + _u16(m1) + _u16(1),
               _u32(0) + _u16(0) + _u16(0x0016) + _u16(s("M2")) + _u16(m2) + _u16(3)]
    # ---- Param
    T[0x08] = [_u16(0) + _u16(1) + _u16(s("p1")), _u16(0) + _u16(2) + _u16(s("p2")), _u16(0) + _u16(1) + _u16(s("q1"))]
    # ---- InterfaceImpl: A implements TS#2 ; B implements IDisposable
    T[0x09] = [_u16(2) + _u16(TDR(2, 2)), _u16(3) + _u16(TDR(1, 2))]
    # ---- MemberRef: GuidAttribute::.ctor(string)   (MemberRefParent tag 1 = TypeRef)
    T[0x0A] = [_u16((3 << 3) | 1) + _u16(s(".ctor")) + _u16(blob([0x20, 0x01, 0x01, 0x0e]))]
    # ---- Constant: field f = 7
    T[0x0B] = [bytes([0x08, 0x00]) + _u16((1 << 2) | 0) + _u16(blob(list(_u32(7))))]
    # ---- CustomAttribute on the assembly: Guid("...")   (HasCustomAttribute tag 14 = Assembly, CustomAttributeType tag 3 = MemberRef)
    guid = b"01234567-89ab-cdef-0123-456789abcdef"
    T[0x0C] = [_u16((1 << 5) | 14) + _u16((1 << 3) | 3) + _u16(blob(list(b"\x01\x00" + bytes([len(guid)]) + guid + b"\x00\x00")))]
    # ---- Module, ModuleRef, Assembly, AssemblyRef
    T[0x00] = [_u16(0) + _u16(s("m.dll")) + _u16(1) + _u16(0) + _u16(0)]
    T[0x1A] = [_u16(s("kernel32"))]
    T[0x20] = [_u32(0x8004) + _u16(1) + _u16(2) + _u16(3) + _u16(4) + _u32(0) + _u16(0) + _u16(s("asm")) + _u16(0)]
    T[0x23] = [_u16(4) + _u16(0) + _u16(0) + _u16(0) + _u32(0) + _u16(blob([1, 2, 3, 4, 5, 6, 7, 8])) + _u16(s("mscorlib")) + _u16(0) + _u16(0)]
    # ---- ManifestResource
    T[0x28] = [_u32(0) + _u32(1) + _u16(s("res")) + _u16(0)]
    # ---- NestedClass: Inner (#4) in A (#2)
    T[0x29] = [_u16(4) + _u16(2)]
    # ---- GenericParam (sorted by owner): U of MethodDef#2 (TypeOrMethodDef tag 1), T of TypeDef#3 (tag 0)
    T[0x2A] = [_u16(0) + _u16(0) + _u16((2 << 1) | 1) + _u16(s("U")), _u16(0) + _u16(0) + _u16((3 << 1) | 0) + _u16(s("T"))]
    # ---- GenericParamConstraint: T : TS#2
    T[0x2C] = [_u16(2) + _u16(TDR(2, 2))]
    US.add(bytes([5]) + "hi".encode("utf-16le") + b"\0")
    valid = 0
    for k in T: valid |= 1 << k
    tilde = _u32(0) + bytes([2, 0, 0, 1]) + struct.pack("<Q", valid) + struct.pack("<Q", 0)
    for k in sorted(T): tilde += _u32(len(T[k]))
    for k in sorted(T): tilde += b"".join(T[k])
    def pad4(b): return bytes(b) + b"\0" * (-len(b) % 4)
    streams = [(b"#~", pad4(tilde)), (b"#Strings", pad4(S.b)), (b"#US", pad4(US.b)), (b"#GUID", bytes(range(16))), (b"#Blob", pad4(B.b))]
    ver = b"v4.0.30319\0\0"
    root = _u32(0x424a5342) + _u16(1) + _u16(1) + _u32(0) + _u32(len(ver)) + ver + _u16(0) + _u16(len(streams))
    hdr_len = len(root) + sum(8 + len(pad4(n + b"\0")) for n, _ in streams)
    off = hdr_len
    body = b""
    for n, d in streams:
        root += _u32(off) + _u32(len(d)) + pad4(n + b"\0"); off += len(d); body += d
    meta = root + body
    META = 0x250
    res_off = (META + len(meta) + 15) & ~15
    resource = _u32(8) + b"RESOURCE"
    size = (res_off + len(resource) + 15) & ~15
    f = bytearray(size)
    f[0:2] = b"MZ"; f[0x3c:0x40] = _u32(0x40)
    f[0x40:0x44] = b"PE\0\0"; f[0x44:0x46] = _u16(0x014c); f[0x46:0x48] = _u16(0); f[0x54:0x56] = _u16(0xe0); f[0x56:0x58] = _u16(0x0102)
    o = 0x58
    f[o:o + 2] = _u16(0x010b); f[o + 32:o + 36] = _u32(0x200); f[o + 36:o + 40] = _u32(0x200); f[o + 56:o + 60] = _u32(size); f[o + 60:o + 64] = _u32(0x200)
    f[o + 92:o + 96] = _u32(16); f[o + 96 + 14 * 8:o + 96 + 14 * 8 + 8] = _u32(0x200) + _u32(72)
    cli = _u32(72) + _u16(2) + _u16(5) + _u32(META) + _u32(len(meta)) + _u32(1) + _u32(0) + _u32(res_off) + _u32(len(resource))
    f[0x200:0x200 + len(cli)] = cli
    f[META:META + len(meta)] = meta
    f[res_off:res_off + len(resource)] = resource
    return bytes(f)


if __name__ == "__main__":
    import sys
    sys.stdout.buffer.write(build())
