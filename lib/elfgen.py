"""Synthetic ELF images for C06: compact ET_EXEC files (about 1 KiB) with every table libyara/modules/elf/elf.c walks - program headers (two PT_LOAD and a
PT_DYNAMIC), a dynamic section, .dynsym / .symtab with string tables, section headers - laid out so that the PROGRAM HEADER TABLE IS THE LAST THING IN THE FILE and
the entry point lies in the last segment: every truncation then cuts the table that the entry-point translation walks.  `phentsize` / `shentsize` may be set to a
value that differs from the real entry size (a malformed but harmless header field: the parser must not trust it for its bounds) - such a seed is one deviation
away from the sane file, and the 1-deviation neighbourhood explored around it reaches the 2-deviation inputs (odd entry size + truncation)."""
import struct


def build(bits=64, phentsize=None, shentsize=None, big_endian=False):
    E = ">" if big_endian else "<"
    W = "Q" if bits == 64 else "I"
    ehsize = 64 if bits == 64 else 52
    ph_real = 56 if bits == 64 else 32
    sh_real = 64 if bits == 64 else 40
    base = 0x400000

    def phdr(t, flags, off, vaddr, filesz, memsz, align):
        if bits == 64: return struct.pack(E + "IIQQQQQQ", t, flags, off, vaddr, vaddr, filesz, memsz, align)
        return struct.pack(E + "IIIIIIII", t, off, vaddr, vaddr, filesz, memsz, flags, align)

    def shdr(name, t, flags, addr, off, size, link, info, align, entsize):
        if bits == 64: return struct.pack(E + "IIQQQQIIQQ", name, t, flags, addr, off, size, link, info, align, entsize)
        return struct.pack(E + "IIIIIIIIII", name, t, flags, addr, off, size, link, info, align, entsize)

    def sym(name, info, shndx, value, size):
        if bits == 64: return struct.pack(E + "IBBHQQ", name, info, 0, shndx, value, size)
        return struct.pack(E + "IIIBBH", name, value, size, info, 0, shndx)

    def dyn(tag, val): return struct.pack(E + W + W, tag, val)

    body = bytearray()
    def put(b, align=8):
        while (ehsize + len(body)) % align: body.append(0)
        off = ehsize + len(body); body.extend(b); return off
    text = put(b"\x90" * 12 + b"\xc3\xcc\xcc\xcc", 16)
    dynstr_b = b"\0libc.so.6\0puts\0exit\0"
    dynstr = put(dynstr_b, 1)
    dynsym_b = sym(0, 0, 0, 0, 0) + sym(11, 0x12, 0, 0, 0) + sym(16, 0x12, 0, 0, 0)
    dynsym = put(dynsym_b)
    strtab_b = b"\0main\0_start\0local_var\0"
    strtab = put(strtab_b, 1)
    symtab_b = sym(0, 0, 0, 0, 0) + sym(1, 0x12, 1, base + text, 8) + sym(6, 0x12, 1, base + text + 4, 4) + sym(13, 0x01, 1, base + text + 8, 4)
    symtab = put(symtab_b)
    dynamic_b = dyn(1, 1) + dyn(5, base + dynstr) + dyn(6, base + dynsym) + dyn(10, len(dynstr_b)) + dyn(11, len(dynsym_b) // 3) + dyn(0, 0)
    dynamic = put(dynamic_b)
    shstr_b = b"\0.text\0.dynstr\0.dynsym\0.strtab\0.symtab\0.dynamic\0.shstrtab\0"
    shstr = put(shstr_b, 1)
    def nm(s): return shstr_b.index(b"\0" + s + b"\0") + 1
    symsz = len(dynsym_b) // 3
    sh = [shdr(0, 0, 0, 0, 0, 0, 0, 0, 0, 0),
          shdr(nm(b".text"), 1, 6, base + text, text, 16, 0, 0, 16, 0),
          shdr(nm(b".dynstr"), 3, 2, base + dynstr, dynstr, len(dynstr_b), 0, 0, 1, 0),
          shdr(nm(b".dynsym"), 11, 2, base + dynsym, dynsym, len(dynsym_b), 2, 1, 8, symsz),
          shdr(nm(b".strtab"), 3, 0, 0, strtab, len(strtab_b), 0, 0, 1, 0),
          shdr(nm(b".symtab"), 2, 0, 0, symtab, len(symtab_b), 4, 3, 8, symsz),
          shdr(nm(b".dynamic"), 6, 3, base + dynamic, dynamic, len(dynamic_b), 2, 0, 8, 2 * (8 if bits == 64 else 4)),
          shdr(nm(b".shstrtab"), 3, 0, 0, shstr, len(shstr_b), 0, 0, 1, 0)]
    shoff = put(b"".join(sh))
    phoff = put(b"")
    total = phoff + 3 * ph_real
    ph = [phdr(1, 4, 0, base, ehsize, ehsize, 0x1000),                                           # PT_LOAD: the header only
          phdr(2, 6, dynamic, base + dynamic, len(dynamic_b), len(dynamic_b), 8),                 # PT_DYNAMIC
          phdr(1, 5, ehsize, base + ehsize, total - ehsize, total - ehsize, 0x1000)]              # PT_LOAD: everything else (the entry point lies here)
    body.extend(b"".join(ph))
    ident = b"\x7fELF" + bytes([2 if bits == 64 else 1, 2 if big_endian else 1, 1, 0]) + b"\0" * 8
    machine = 62 if bits == 64 else 3
    hdr = ident + struct.pack(E + "HHI" + W + W + W + "IHHHHHH", 2, machine, 1, base + text + 4, phoff, shoff, 0, ehsize,
                              ph_real if phentsize is None else phentsize, 3, sh_real if shentsize is None else shentsize, len(sh), len(sh) - 1)
    assert len(hdr) == ehsize, len(hdr)
    return bytes(hdr) + bytes(body)


def seeds(quick):
    out = [("synthetic-elf64:phentsize-32", build(64, phentsize=32)), ("synthetic-elf32:phentsize-16", build(32, phentsize=16))]
    if not quick:
        out += [("synthetic-elf64", build(64)), ("synthetic-elf32", build(32)), ("synthetic-elf64:shentsize-40", build(64, shentsize=40)), ("synthetic-elf32-be", build(32, big_endian=True))]
    return out


if __name__ == "__main__":
    import sys
    sys.stdout.buffer.write(build(int(sys.argv[1]) if len(sys.argv) > 1 else 64, phentsize=int(sys.argv[2]) if len(sys.argv) > 2 else None))
