"""Synthetic PE32 image for C06: about 2.5 KiB, one section, with every table that libyara/modules/pe/pe.c walks in a loop or recursively and that the
small in-tree samples lack or have only in part: imports (by name and by ordinal), DELAYED imports (by name and by ordinal), exports (name, ordinal,
forwarder), a three-level resource tree with a named entry and a VS_VERSION_INFO leaf (StringFileInfo), a CodeView debug directory (PDB path), a Rich
signature, an attribute certificate table entry and an overlay.  Every RVA / size / count / terminator is then one deviation away from the edge."""
import struct


def u16(v): return struct.pack("<H", v & 0xffff)
def u32(v): return struct.pack("<I", v & 0xffffffff)
def w(s): return s.encode("utf-16le")


class Sec:
    """section body builder: RVA = VA + offset"""
    def __init__(self, va): self.va, self.b = va, bytearray()
    def here(self): return len(self.b)
    def rva(self, off=None): return self.va + (self.here() if off is None else off)
    def align(self, n):
        while len(self.b) % n: self.b.append(0)
    def put(self, data): off = self.here(); self.b += data; return off
    def patch(self, off, data): self.b[off:off + len(data)] = data


def version_info():
    def node(key, wtype, value, children, vlen=None):
        body = w(key) + b"\0\0"
        hdr_len = 6 + len(body)
        pad = b"\0" * (-hdr_len % 4)
        val = value + b"\0" * (-len(value) % 4) if (children or True) else value
        kids = b"".join(children)
        total = hdr_len + len(pad) + len(val) + len(kids)
        return u16(total) + u16(vlen if vlen is not None else len(value)) + u16(wtype) + body + pad + val + kids
    def pad4(b): return b + b"\0" * (-len(b) % 4)
    s1 = pad4(node("CompanyName", 1, w("ACME") + b"\0\0", [], vlen=5))
    s2 = pad4(node("FileVersion", 1, w("1.2") + b"\0\0", [], vlen=4))
    table = pad4(node("040904b0", 1, b"", [s1, s2]))
    sfi = pad4(node("StringFileInfo", 1, b"", [table]))
    ffi = struct.pack("<13I", 0xFEEF04BD, 0x10000, 0x00010002, 0x00030004, 0x00010002, 0x00030004, 0x3f, 0, 4, 1, 0, 0, 0)
    return node("VS_VERSION_INFO", 0, ffi, [sfi], vlen=52)


def build():
    S = Sec(0x1000)
    dirs = {}
    # ---- imports
    n_exit = S.put(u16(0) + b"ExitProcess\0"); S.align(2)
    n_dll = S.put(b"kernel32.dll\0"); S.align(4)
    ilt = S.put(u32(S.rva(n_exit)) + u32(0x80000000 | 7) + u32(0))
    iat = S.put(u32(S.rva(n_exit)) + u32(0x80000000 | 7) + u32(0))
    imp = S.put(u32(S.rva(ilt)) + u32(0) + u32(0) + u32(S.rva(n_dll)) + u32(S.rva(iat)) + b"\0" * 20)
    dirs[1] = (S.rva(imp), 40)
    # ---- delayed imports (attributes = 1: fields are RVAs)
    d_fn = S.put(u16(0) + b"DelayFunc\0"); S.align(2)
    d_dll = S.put(b"user32.dll\0"); S.align(4)
    d_int = S.put(u32(S.rva(d_fn)) + u32(0x80000000 | 9) + u32(0))
    d_iat = S.put(u32(0x401000) + u32(0x401008) + u32(0))
    d_mod = S.put(u32(0))
    dly = S.put(u32(1) + u32(S.rva(d_dll)) + u32(S.rva(d_mod)) + u32(S.rva(d_iat)) + u32(S.rva(d_int)) + u32(0) + u32(0) + u32(0) + b"\0" * 32)
    dirs[13] = (S.rva(dly), 64)
    # ---- exports: two functions, one named, one forwarder
    e_name = S.put(b"synth.dll\0"); e_f1 = S.put(b"Exported\0")
    exp_dir_off = None
    S.align(4)
    e_funcs = S.put(u32(0x1010) + u32(0))            # second entry patched below to point INTO the export directory (a forwarder)
    e_names = S.put(u32(S.rva(e_f1)))
    e_ords = S.put(u16(0)); S.align(4)
    e_fwd = None
    exp = S.put(u32(0) + u32(0x5e000000) + u16(0) + u16(0) + u32(S.rva(e_name)) + u32(1) + u32(2) + u32(1) + u32(S.rva(e_funcs)) + u32(S.rva(e_names)) + u32(S.rva(e_ords)))
    e_fwd = S.put(b"other.Func\0"); S.align(4)
    S.patch(e_funcs + 4, u32(S.rva(e_fwd)))
    dirs[0] = (S.rva(exp), S.here() - exp)
    # ---- resources: type RT_VERSION(16) -> id 1 -> lang 0x409 -> data ; plus a NAMED type entry "ICO" -> id 2 -> lang 0 -> data
    S.align(4)
    R = S.here()
    vi = version_info()
    def rdir(named, ids): return u32(0) + u32(0) + u16(0) + u16(0) + u16(named) + u16(ids)
    # layout inside the resource block (offsets relative to R)
    root = rdir(1, 1)                       # 16 + 2*8 = 32
    o_t_named, o_t_ver = 32, 32 + 24        # type-level subdirs (16 + 8 each)
    o_n_named, o_n_ver = 80, 104            # name-level subdirs
    o_d_named, o_d_ver = 128, 144           # data entries (16 each)
    o_str = 160                             # name string "ICO": length(2) + utf16
    o_payload = 168
    blk = bytearray(o_payload)
    blk[0:16] = root
    blk[16:24] = u32(0x80000000 | o_str) + u32(0x80000000 | o_t_named)
    blk[24:32] = u32(16) + u32(0x80000000 | o_t_ver)
    blk[o_t_named:o_t_named + 24] = rdir(0, 1) + u32(2) + u32(0x80000000 | o_n_named)
    blk[o_t_ver:o_t_ver + 24] = rdir(0, 1) + u32(1) + u32(0x80000000 | o_n_ver)
    blk[o_n_named:o_n_named + 24] = rdir(0, 1) + u32(0) + u32(o_d_named)
    blk[o_n_ver:o_n_ver + 24] = rdir(0, 1) + u32(0x409) + u32(o_d_ver)
    blk[o_str:o_str + 8] = u16(3) + w("ICO")
    payload_named = b"ICONDATA"
    blk[o_d_named:o_d_named + 16] = u32(S.va + R + o_payload) + u32(len(payload_named)) + u32(0) + u32(0)
    blk[o_d_ver:o_d_ver + 16] = u32(S.va + R + o_payload + 8) + u32(len(vi)) + u32(0) + u32(0)
    S.put(bytes(blk) + payload_named + vi); S.align(4)
    dirs[2] = (S.va + R, S.here() - R)
    # ---- debug directory: CodeView RSDS with a PDB path
    cv = S.put(b"RSDS" + bytes(range(16)) + u32(1) + b"C:\\build\\synth.pdb\0"); S.align(4)
    cv_len = S.here() - cv
    dbg = S.put(u32(0) + u32(0x5e000000) + u16(0) + u16(0) + u32(2) + u32(cv_len) + u32(S.rva(cv)) + u32(0x200 + cv))
    dirs[6] = (S.rva(dbg), 28)
    S.align(0x200)
    raw = bytes(S.b)
    # ---- headers
    rich_key = 0x11223344
    rich = b"".join(u32(v ^ rich_key) for v in (0x536e6144, 0, 0, 0, 0x00937809, 3, 0x00010000, 1)) + b"Rich" + u32(rich_key)
    PEOFF = 0x80
    hdr = bytearray(0x200)
    hdr[0:2] = b"MZ"; hdr[0x3c:0x40] = u32(PEOFF); hdr[0x40:0x40 + len(rich)] = rich
    cert = u32(16) + u16(0x0200) + u16(2) + b"\x30\x06\x02\x01\x01\x02\x01\x02"
    overlay = b"OVERLAY-DATA-16B"
    cert_off = 0x200 + len(raw) + len(overlay)
    dirs[4] = (cert_off, len(cert))
    coff = b"PE\0\0" + u16(0x014c) + u16(1) + u32(0x5e000000) + u32(0) + u32(0) + u16(0xe0) + u16(0x2102)
    opt = bytearray(0xe0)
    opt[0:2] = u16(0x10b); opt[2:4] = bytes([14, 0])
    opt[4:8] = u32(len(raw)); opt[16:20] = u32(0x1010); opt[20:24] = u32(0x1000)
    opt[28:32] = u32(0x400000); opt[32:36] = u32(0x1000); opt[36:40] = u32(0x200)
    opt[40:42] = u16(6); opt[48:50] = u16(6)
    opt[56:60] = u32(0x1000 + ((len(raw) + 0xfff) & ~0xfff)); opt[60:64] = u32(0x200)
    opt[68:70] = u16(3); opt[70:72] = u16(0x8540)
    opt[72:76] = u32(0x100000); opt[76:80] = u32(0x1000); opt[80:84] = u32(0x100000); opt[84:88] = u32(0x1000)
    opt[92:96] = u32(16)
    for k, (rva_, sz) in dirs.items():
        opt[96 + 8 * k:96 + 8 * k + 8] = u32(rva_) + u32(sz)
    sect = b".text\0\0\0" + u32(len(raw)) + u32(0x1000) + u32(len(raw)) + u32(0x200) + u32(0) + u32(0) + u16(0) + u16(0) + u32(0x60000020)
    hdr[PEOFF:PEOFF + len(coff)] = coff
    hdr[PEOFF + 24:PEOFF + 24 + 0xe0] = opt
    hdr[PEOFF + 24 + 0xe0:PEOFF + 24 + 0xe0 + 40] = sect
    return bytes(hdr) + raw + overlay + cert


if __name__ == "__main__":
    import sys
    sys.stdout.buffer.write(build())
