"""ref_cond: an evaluator of the YARA condition language written from docs/writingrules.rst, independent of libyara.
Expressions are Python trees that can print themselves (with minimal parentheses, so precedence is exercised) and evaluate
themselves in a context (buffer, true match sets, external values).  Integers are 64-bit two's complement ("integers are always
64-bits long"), UNDEF propagates through every operator except and/or (which treat it as false)."""
import re as _re

M64 = (1 << 64) - 1


class _Undef:
    def __repr__(self): return "UNDEF"
UNDEF = _Undef()


def wrap(v):
    v &= M64
    return v - (1 << 64) if v >> 63 else v


# precedence levels as in the manual's table (higher binds tighter)
P_OR, P_AND, P_NOT, P_EQ, P_REL, P_BOR, P_XOR, P_BAND, P_SHIFT, P_ADD, P_MUL, P_UNARY, P_ATOM = range(1, 14)
BINPREC = {"or": P_OR, "and": P_AND, "==": P_EQ, "!=": P_EQ, "contains": P_EQ, "icontains": P_EQ, "startswith": P_EQ, "istartswith": P_EQ,
           "endswith": P_EQ, "iendswith": P_EQ, "iequals": P_EQ, "matches": P_EQ, "<": P_REL, "<=": P_REL, ">": P_REL, ">=": P_REL,
           "|": P_BOR, "^": P_XOR, "&": P_BAND, "<<": P_SHIFT, ">>": P_SHIFT, "+": P_ADD, "-": P_ADD, "*": P_MUL, "\\": P_MUL, "%": P_MUL}


class Ctx:
    def __init__(self, data=b"", strings=None, ext=None, rules=None):
        self.data = data
        self.strings = strings or {}       # id -> bytes pattern (plain text strings)
        self.ext = ext or {}
        self.rules = rules or {}           # earlier rule verdicts
        self.vars = {}
        self._m = {}

    def matches(self, sid):
        if sid not in self._m:
            pat = self.strings[sid]
            out, i = [], self.data.find(pat)
            while i >= 0:
                out.append((i, len(pat))); i = self.data.find(pat, i + 1)
            self._m[sid] = out
        return self._m[sid]


class E:
    prec = P_ATOM
    def s(self, parent_prec=0, right=False):
        t = self.src()
        # parenthesise when this node binds looser than its context (or equally on the right side of a left-assoc operator)
        if self.prec < parent_prec or (right and self.prec == parent_prec and self.prec != P_ATOM):
            return "(" + t + ")"
        return t


class Int(E):
    def __init__(self, v): self.v = v
    def src(self):
        if self.v == -(1 << 63): return "(-9223372036854775807 - 1)"
        return str(self.v)
    @property
    def prec(self): return P_UNARY if self.v < 0 else P_ATOM
    def ev(self, c): return self.v


class Flt(E):
    def __init__(self, v): self.v = v
    def src(self): return repr(float(self.v))
    @property
    def prec(self): return P_UNARY if self.v < 0 else P_ATOM
    def ev(self, c): return float(self.v)


class Str(E):
    def __init__(self, v): self.v = v if isinstance(v, bytes) else v.encode("latin-1")
    def src(self): return '"' + "".join("\\x%02x" % b for b in self.v) + '"'
    def ev(self, c): return self.v


class Raw(E):
    """a leaf with given source text and a python function for its value (module fields, externals, filesize ...)"""
    def __init__(self, text, fn, prec=P_ATOM): self.text, self.fn, self._p = text, fn, prec
    def src(self): return self.text
    @property
    def prec(self): return self._p
    def ev(self, c): return self.fn(c)


def Ext(name): return Raw(name, lambda c: c.ext[name])
FILESIZE = Raw("filesize", lambda c: len(c.data))
UNDEF_I = Raw("tests.undefined.i", lambda c: UNDEF)
UNDEF_F = Raw("tests.undefined.f", lambda c: UNDEF)
UNDEF_S = Raw("tests.string_array[100]", lambda c: UNDEF)
TRUE = Raw("true", lambda c: True)
FALSE = Raw("false", lambda c: False)
def RuleRef(name): return Raw(name, lambda c: c.rules[name])
def Var(name): return Raw(name, lambda c: c.vars[name])


class Read(E):
    """intN / uintN readers (little endian) and their be variants"""
    def __init__(self, fn, off): self.fn, self.off = fn, off
    def src(self): return "%s(%s)" % (self.fn, self.off.s())
    def ev(self, c):
        o = self.off.ev(c)
        if o is UNDEF: return UNDEF
        m = _re.match(r"(u?)int(8|16|32)(be)?$", self.fn)
        n = int(m.group(2)) // 8
        if o < 0 or o + n > len(c.data): return UNDEF
        v = int.from_bytes(c.data[o:o + n], "big" if m.group(3) else "little", signed=not m.group(1))
        return v


def _isnum(x): return isinstance(x, (int, float)) and not isinstance(x, bool)


class Bin(E):
    def __init__(self, op, a, b): self.op, self.a, self.b = op, a, b
    @property
    def prec(self): return BINPREC[self.op]
    def src(self): return "%s %s %s" % (self.a.s(self.prec), self.op, self.b.s(self.prec, True))
    def ev(self, c):
        op = self.op
        if op == "and" or op == "or":
            x, y = self.a.ev(c), self.b.ev(c)
            x = False if x is UNDEF else truth(x); y = False if y is UNDEF else truth(y)
            return (x and y) if op == "and" else (x or y)
        x, y = self.a.ev(c), self.b.ev(c)
        if x is UNDEF or y is UNDEF: return UNDEF
        if op in ("+", "-", "*", "\\", "%", "&", "|", "^", "<<", ">>"):
            if isinstance(x, float) or isinstance(y, float):
                x, y = float(x), float(y)
                if op == "+": return x + y
                if op == "-": return x - y
                if op == "*": return x * y
                if op == "\\": return (x / y) if y != 0 else (float("nan") if x == 0 else float("inf") if x > 0 else float("-inf"))   # IEEE, defined
                raise TypeError(op)
            if op == "+": return wrap(x + y)
            if op == "-": return wrap(x - y)
            if op == "*": return wrap(x * y)
            if op in ("\\", "%"):
                if y == 0: return UNDEF
                if x == -(1 << 63) and y == -1: return UNDEF        # not representable; the manual is silent, the VM yields undefined
                q = abs(x) // abs(y); q = -q if (x < 0) != (y < 0) else q
                return wrap(q) if op == "\\" else wrap(x - q * y)
            if op == "&": return wrap(x & y)
            if op == "|": return wrap(x | y)
            if op == "^": return wrap(x ^ y)
            if op == "<<":
                if y < 0: return UNDEF
                return wrap(x << y) if y < 64 else 0
            if op == ">>":
                if y < 0: return UNDEF
                return (x >> y) if y < 64 else 0
        if op in ("==", "!=", "<", "<=", ">", ">="):
            if isinstance(x, bytes) != isinstance(y, bytes): raise TypeError("mixed")
            return {"==": x == y, "!=": x != y, "<": x < y, "<=": x <= y, ">": x > y, ">=": x >= y}[op]
        if op == "contains": return y in x
        if op == "icontains": return y.lower() in x.lower()
        if op == "startswith": return x.startswith(y)
        if op == "istartswith": return x.lower().startswith(y.lower())
        if op == "endswith": return x.endswith(y)
        if op == "iendswith": return x.lower().endswith(y.lower())
        if op == "iequals": return x.lower() == y.lower()
        raise TypeError(op)


def truth(x):
    if x is UNDEF: return False
    if isinstance(x, bytes): return len(x) > 0
    return bool(x)


class Un(E):
    def __init__(self, op, a): self.op, self.a = op, a
    @property
    def prec(self): return P_NOT if self.op in ("not", "defined") else P_UNARY
    def src(self):
        sp = " " if self.op in ("not", "defined") else ""
        inner = self.a.s(self.prec)
        if self.op == "-" and inner.startswith("-"): inner = "(" + inner + ")"
        return self.op + sp + inner
    def ev(self, c):
        x = self.a.ev(c)
        if self.op == "defined": return x is not UNDEF
        if x is UNDEF: return UNDEF
        if self.op == "not": return not truth(x)
        if self.op == "-": return -x if isinstance(x, float) else wrap(-x)
        if self.op == "~": return wrap(~x)


class Matches(E):
    prec = P_EQ
    def __init__(self, a, regex, pyre): self.a, self.regex, self.pyre = a, regex, pyre
    def src(self): return "%s matches /%s/" % (self.a.s(self.prec), self.regex)
    def ev(self, c):
        x = self.a.ev(c)
        if x is UNDEF: return UNDEF
        return _re.search(self.pyre, x, _re.S) is not None


# ---------------------------------------------------------------- strings
class Found(E):
    def __init__(self, sid): self.sid = sid
    def src(self): return "$" + self.sid
    def ev(self, c): return len(c.matches(self.sid)) > 0


class Count(E):
    def __init__(self, sid): self.sid = sid
    def src(self): return "#" + self.sid
    def ev(self, c): return len(c.matches(self.sid))


class CountIn(E):
    def __init__(self, sid, lo, hi): self.sid, self.lo, self.hi = sid, lo, hi
    def src(self): return "#%s in (%s..%s)" % (self.sid, self.lo.s(), self.hi.s())
    def ev(self, c):
        lo, hi = self.lo.ev(c), self.hi.ev(c)
        if lo is UNDEF or hi is UNDEF: return UNDEF
        return sum(1 for (o, l) in c.matches(self.sid) if lo <= o <= hi)


class Offset(E):
    def __init__(self, sid, idx=None): self.sid, self.idx = sid, idx
    def src(self): return "@%s[%s]" % (self.sid, self.idx.s()) if self.idx is not None else "@" + self.sid
    def ev(self, c):
        i = 1 if self.idx is None else self.idx.ev(c)
        if i is UNDEF: return UNDEF
        m = c.matches(self.sid)
        return m[i - 1][0] if 1 <= i <= len(m) else UNDEF


class Length(E):
    def __init__(self, sid, idx=None): self.sid, self.idx = sid, idx
    def src(self): return "!%s[%s]" % (self.sid, self.idx.s()) if self.idx is not None else "!" + self.sid
    def ev(self, c):
        i = 1 if self.idx is None else self.idx.ev(c)
        if i is UNDEF: return UNDEF
        m = c.matches(self.sid)
        return m[i - 1][1] if 1 <= i <= len(m) else UNDEF


class At(E):
    prec = P_ATOM
    def __init__(self, sid, off): self.sid, self.off = sid, off
    def src(self): return "$%s at %s" % (self.sid, self.off.s(P_BOR))
    def ev(self, c):
        o = self.off.ev(c)
        if o is UNDEF: return UNDEF
        return any(mo == o for (mo, l) in c.matches(self.sid))


class In(E):
    def __init__(self, sid, lo, hi): self.sid, self.lo, self.hi = sid, lo, hi
    def src(self): return "$%s in (%s..%s)" % (self.sid, self.lo.s(), self.hi.s())
    def ev(self, c):
        lo, hi = self.lo.ev(c), self.hi.ev(c)
        if lo is UNDEF or hi is UNDEF: return UNDEF
        return any(lo <= mo <= hi for (mo, l) in c.matches(self.sid))


def quant_needed(q, n, c):
    """q: 'all' | 'any' | 'none' | Int/expr | ('%', expr) ; returns predicate on the number of satisfied items"""
    if q == "all": return lambda k: k == n and n > 0     # zero iterations never satisfy `all` (manual silent; the engine's convention)
    if q == "any": return lambda k: k >= 1
    if q == "none": return lambda k: k == 0
    if isinstance(q, tuple):
        p = q[1].ev(c)
        if p is UNDEF: return None
        need = -(-(n * p) // 100)          # ceil(n*p/100)
        return lambda k: k >= need
    v = q.ev(c)
    if v is UNDEF: return None
    if v == 0: return lambda k: k == 0      # "0 of them" is true iff exactly 0 match (manual, warning in the `of` section)
    return lambda k: k >= v


def quant_src(q):
    if isinstance(q, str): return q
    if isinstance(q, tuple): return q[1].s(P_ATOM) + "%"
    return q.s(P_ATOM)


class Of(E):
    """Q of (set) [in (lo..hi) | at e]"""
    def __init__(self, q, sids, settext, rng=None, at=None): self.q, self.sids, self.settext, self.rng, self.at = q, sids, settext, rng, at
    def src(self):
        t = "%s of %s" % (quant_src(self.q), self.settext)
        if self.rng: t += " in (%s..%s)" % (self.rng[0].s(), self.rng[1].s())
        if self.at is not None: t += " at %s" % self.at.s(P_BOR)
        return t
    def ev(self, c):
        pred = quant_needed(self.q, len(self.sids), c)
        if pred is None: return UNDEF
        k = 0
        for sid in self.sids:
            if self.rng:
                lo, hi = self.rng[0].ev(c), self.rng[1].ev(c)
                if lo is UNDEF or hi is UNDEF: return UNDEF
                ok = any(lo <= o <= hi for (o, l) in c.matches(sid))
            elif self.at is not None:
                a = self.at.ev(c)
                if a is UNDEF: return UNDEF
                ok = any(o == a for (o, l) in c.matches(sid))
            else:
                ok = len(c.matches(sid)) > 0
            k += 1 if ok else 0
        return pred(k)


class RulesOf(E):
    def __init__(self, q, names, settext): self.q, self.names, self.settext = q, names, settext
    def src(self): return "%s of %s" % (quant_src(self.q), self.settext)
    def ev(self, c):
        pred = quant_needed(self.q, len(self.names), c)
        if pred is None: return UNDEF
        return pred(sum(1 for n in self.names if c.rules[n]))


class ForOf(E):
    """for Q of (set) : ( body )  -- body uses $, #, @, ! placeholders via the PH* nodes"""
    def __init__(self, q, sids, settext, body): self.q, self.sids, self.settext, self.body = q, sids, settext, body
    def src(self): return "for %s of %s : (%s)" % (quant_src(self.q), self.settext, self.body.s())
    def ev(self, c):
        pred = quant_needed(self.q, len(self.sids), c)
        if pred is None: return UNDEF
        k = 0
        for sid in self.sids:
            c.vars["$"] = sid
            k += 1 if truth(self.body.ev(c)) else 0
        return pred(k)


class PH(E):
    """placeholder inside for..of bodies: kind in '$', '#', '@', '!' with optional index / at / in"""
    def __init__(self, kind, idx=None, at=None, rng=None): self.kind, self.idx, self.at, self.rng = kind, idx, at, rng
    def src(self):
        if self.kind == "$":
            if self.at is not None: return "$ at %s" % self.at.s(P_BOR)
            if self.rng: return "$ in (%s..%s)" % (self.rng[0].s(), self.rng[1].s())
            return "$"
        if self.kind == "#": return "#"
        return "%s[%s]" % (self.kind, self.idx.s()) if self.idx is not None else self.kind
    def ev(self, c):
        sid = c.vars["$"]
        if self.kind == "$":
            if self.at is not None: return At(sid, self.at).ev(c)
            if self.rng: return In(sid, self.rng[0], self.rng[1]).ev(c)
            return Found(sid).ev(c)
        if self.kind == "#": return Count(sid).ev(c)
        if self.kind == "@": return Offset(sid, self.idx).ev(c)
        return Length(sid, self.idx).ev(c)


class ForIn(E):
    """for Q v[,v2] in <iterable> : ( body ); iterable = ('range', lo, hi) | ('enum', [exprs]) | ('raw', text, python list of values or pairs)"""
    def __init__(self, q, names, it, body): self.q, self.names, self.it, self.body = q, names, it, body
    def src(self):
        if self.it[0] == "range": its = "(%s..%s)" % (self.it[1].s(), self.it[2].s())
        elif self.it[0] == "enum": its = "(" + ", ".join(e.s() for e in self.it[1]) + ")"
        else: its = self.it[1]
        return "for %s %s in %s : (%s)" % (quant_src(self.q), ",".join(self.names), its, self.body.s())
    def items(self, c):
        if self.it[0] == "range":
            lo, hi = self.it[1].ev(c), self.it[2].ev(c)
            if lo is UNDEF or hi is UNDEF: return UNDEF
            return list(range(lo, hi + 1)) if lo <= hi else []
        if self.it[0] == "enum":
            return [e.ev(c) for e in self.it[1]]
        return list(self.it[2])
    def ev(self, c):
        items = self.items(c)
        if items is UNDEF: return UNDEF
        n = len(items)
        pred = quant_needed(self.q, n, c)
        if pred is None: return UNDEF
        if n == 0: return False            # a loop over nothing is false whatever the quantifier (manual silent; engine convention)
        saved = {k: c.vars.get(k) for k in self.names}
        k = 0
        for it in items:
            if len(self.names) == 1: c.vars[self.names[0]] = it
            else:
                for nm, v in zip(self.names, it): c.vars[nm] = v
            k += 1 if truth(self.body.ev(c)) else 0
        for kk, v in saved.items():
            if v is None: c.vars.pop(kk, None)
            else: c.vars[kk] = v
        return pred(k)


def verdict(expr, ctx):
    v = expr.ev(ctx)
    return truth(v)


def sids_of(e, acc=None):
    """string identifiers referenced by an expression tree (explicit ids and the members of sets)"""
    acc = set() if acc is None else acc
    if isinstance(e, (Found, Count, CountIn, Offset, Length, At, In)): acc.add(e.sid)
    if isinstance(e, (Of, ForOf)): acc.update(e.sids if e.settext not in ("them", "($*)") else ["*"])
    for v in vars(e).values() if hasattr(e, "__dict__") else ():
        if isinstance(v, E): sids_of(v, acc)
        elif isinstance(v, (tuple, list)):
            for x in v:
                if isinstance(x, E): sids_of(x, acc)
                elif isinstance(x, (tuple, list)):
                    for y in x:
                        if isinstance(y, E): sids_of(y, acc)
    return acc


def has_undef_quant(e):
    if isinstance(e, (Of, ForOf, ForIn, RulesOf)):
        q = e.q
        if q is UNDEF_I or (isinstance(q, tuple) and q[1] is UNDEF_I): return True
    for v in vars(e).values() if hasattr(e, "__dict__") else ():
        if isinstance(v, E) and has_undef_quant(v): return True
        if isinstance(v, (tuple, list)):
            for x in v:
                if isinstance(x, E) and has_undef_quant(x): return True
    return False
