"""Common plumbing for the /verif checks: worker processes, evidence, known findings, violations."""
import json, os, subprocess, sys, time, hashlib, signal, select

VERIF = os.path.dirname(os.path.dirname(os.path.abspath(__file__)))
sys.path.insert(0, os.path.join(VERIF, "mk"))
import build as yvbuild  # noqa

H = os.path.join(VERIF, "harness")
TMP = os.path.join(yvbuild.BUILD, "tmp")
WRAP_LD = ["-Wl,--wrap=malloc,--wrap=calloc,--wrap=realloc,--wrap=free,--wrap=strdup,--wrap=strndup"]


def hx(b):
    if isinstance(b, str):
        b = b.encode("latin-1")
    return b.hex() if b else "-"


_exe_cache = {}


def worker_exe(variant):
    # memoised per process tree: the tree is hashed and built once per check run (in the parent, before the pool forks)
    if ("yvw", variant) not in _exe_cache:
        _exe_cache[("yvw", variant)] = yvbuild.link(variant, "yvw", [os.path.join(H, "yvw.c"), os.path.join(H, "yvcommon.c")],
                                                    extra_cflags=["-DYV_WRAP"], extra_ld=WRAP_LD)
    return _exe_cache[("yvw", variant)]


class WorkerDied(Exception):
    def __init__(self, cmd, rc, err):
        Exception.__init__(self, "worker died rc=%s on %r" % (rc, cmd[:200]))
        self.cmd, self.rc, self.err = cmd, rc, err

    def __reduce__(self):              # picklable: an uncaught worker death inside a pool process must surface as itself, not as a TypeError
        return (WorkerDied, (self.cmd, self.rc, self.err))


class WorkerHang(Exception):
    pass


ASAN_ENV = {"ASAN_OPTIONS": "detect_leaks=0:abort_on_error=0:allocator_may_return_null=1:handle_segv=1:detect_stack_use_after_return=0",
            "UBSAN_OPTIONS": "print_stacktrace=1:halt_on_error=1"}


class Worker:
    def __init__(self, variant="plain", args=(), timeout=60.0, env=None):
        self.variant, self.args, self.timeout = variant, list(args), timeout
        self.exe = worker_exe(variant)
        os.makedirs(TMP, exist_ok=True)
        self.env = dict(os.environ); self.env.update(ASAN_ENV)
        if env: self.env.update(env)
        self.p = None
        self.log = []          # commands since start (for crash replays)
        self.start()

    def start(self):
        self.close()
        self.errf = open(os.path.join(TMP, "yvw_err_%d_%d.txt" % (os.getpid(), id(self))), "w+b")
        self.p = subprocess.Popen([self.exe, TMP] + self.args, stdin=subprocess.PIPE, stdout=subprocess.PIPE,
                                  stderr=self.errf, env=self.env, bufsize=0)
        self.log = []
        self.rbuf = b""
        os.set_blocking(self.p.stdin.fileno(), False)

    def _readline(self, deadline):
        while b"\n" not in self.rbuf:
            left = deadline - time.time()
            if left <= 0:
                raise WorkerHang()
            r, _, _ = select.select([self.p.stdout], [], [], min(left, 5.0))
            if r:
                d = os.read(self.p.stdout.fileno(), 1 << 20)
                if not d:
                    return None
                self.rbuf += d
        line, self.rbuf = self.rbuf.split(b"\n", 1)
        return line

    def cmd(self, line, timeout=None):
        return self.batch([line], timeout)[0]

    def batch(self, lines, timeout=None):
        """send all lines, read all replies; on death raises WorkerDied naming the first unanswered command"""
        data = ("\n".join(lines) + "\n").encode()
        self.log.extend(lines)
        out = []
        deadline = time.time() + (timeout or self.timeout)
        # write in a way that cannot deadlock on full pipes: interleave
        pos = 0
        fd_in = self.p.stdin.fileno()
        try:
            while len(out) < len(lines):
                if pos < len(data):
                    r, w, _ = select.select([self.p.stdout], [self.p.stdin], [], 1.0)
                    if w:
                        try:
                            pos += os.write(fd_in, data[pos:pos + 65536])
                        except BlockingIOError:
                            pass
                        except BrokenPipeError:
                            pos = len(data)
                    if not r and b"\n" not in self.rbuf:
                        if time.time() > deadline: raise WorkerHang()
                        continue
                ln = self._readline(deadline)
                if ln is None:
                    break
                out.append(json.loads(ln))
        except WorkerHang:
            culprit = lines[len(out)] if len(out) < len(lines) else ""
            self.kill()
            e = WorkerHang("hang on %r" % culprit[:200]); e.cmd = culprit; e.done = out
            raise e
        if len(out) < len(lines):
            rc = self.p.wait()
            self.errf.seek(0); err = self.errf.read().decode(errors="replace")[-6000:]
            e = WorkerDied(lines[len(out)], rc, err); e.done = out
            self.p = None
            raise e
        return out

    def kill(self):
        if self.p:
            try: self.p.kill(); self.p.wait()
            except Exception: pass
            self.p = None

    def close(self):
        if self.p:
            try:
                self.p.stdin.close(); self.p.wait(timeout=5)
            except Exception:
                self.kill()
            self.p = None
        if getattr(self, "errf", None):
            try:
                n = self.errf.name; self.errf.close(); os.unlink(n)
            except Exception: pass
            self.errf = None

    # convenience -----------------------------------------------------------------
    def compile(self, text, ns="-", ci=0, ri=0, defs=(), arena=0, inc=0, extra=()):
        """returns (add_reply, getrules_rc or None)"""
        cmds = ["compiler %d arena=%d inc=%d" % (ci, arena, inc)] + list(extra)
        for (i, t, v) in defs:
            cmds.append("defc %d %s %s %s" % (ci, i, t, hx(v) if t == "s" else v))
        cmds.append("add %d %s %s" % (ci, ns, hx(text)))
        rep = self.batch(cmds)
        a = rep[-1]
        if a["errors"] != 0:
            self.cmd("cdestroy %d" % ci)
            return a, None
        g = self.batch(["getrules %d %d" % (ci, ri), "cdestroy %d" % ci])[0]
        return a, g["rc"]


# --------------------------------------------------------------------------------------------

class Check:
    """bookkeeping of one check run: deadline, counters, violations vs known findings, evidence file"""

    def __init__(self, pid, level, argv=None, deadlines=(240, 2400)):
        import argparse
        ap = argparse.ArgumentParser()
        ap.add_argument("--tier", default=os.environ.get("VERIF_TIER", "quick"))
        ap.add_argument("--replay")
        ap.add_argument("--deadline", type=float, default=None)
        ap.add_argument("--no-evidence", action="store_true")
        a, self.rest = ap.parse_known_args(argv)
        self.pid, self.level, self.tier = pid, level, a.tier
        self.replay = a.replay
        self.noev = a.no_evidence
        self.seed = int(os.environ.get("VERIF_SEED", "0") or 0)
        self.t0 = time.time()
        dl = a.deadline or float(os.environ.get("VERIF_DEADLINE", "0") or 0) or (deadlines[0] if self.tier == "quick" else deadlines[1])
        self.deadline = self.t0 + dl
        self.cov = dict(evaluations=0, distinct_nontrivial=0, rule="", samples=[], exhaustive=True, subspaces={})
        self.assumptions = []
        self.violations = []        # (signature, detail)
        self.known_hit = {}
        self.sigs = set()
        kf = os.path.join(VERIF, "known_findings.json")
        self.known = {}
        if os.path.exists(kf):
            for e in json.load(open(kf)).get("findings", []):
                if e.get("property") == pid and e.get("status", "open") == "open":
                    self.known[e["signature"]] = e
        self.replay_dir = os.path.join(VERIF, "replays", pid)

    def expired(self):
        return time.time() > self.deadline

    def sample(self, s, cap=6):
        if len(self.cov["samples"]) < cap:
            self.cov["samples"].append(s)

    def sub(self, name, **kw):
        d = self.cov["subspaces"].setdefault(name, {})
        for k, v in kw.items():
            if isinstance(v, (int, float)) and not isinstance(v, bool) and k in d and isinstance(d[k], (int, float)):
                d[k] += v
            else:
                d[k] = v
        return d

    def violation(self, signature, detail):
        """signature names the failing input class / call site; detail is a JSON-able replay record"""
        if signature in self.known:
            if signature not in self.known_hit:
                self.known_hit[signature] = detail
                print("KNOWN-FINDING: property=%s %s -- %s" % (self.pid, signature, self.known[signature].get("what", "")))
                sys.stdout.flush()
            return False
        if signature in self.sigs:
            return True
        self.sigs.add(signature)
        os.makedirs(self.replay_dir, exist_ok=True)
        path = os.path.join(self.replay_dir, "%s.json" % hashlib.sha1(signature.encode()).hexdigest()[:12])
        with open(path, "w") as fh:
            json.dump(dict(property=self.pid, signature=signature, tier=self.tier, detail=detail), fh, indent=1, default=str)
        self.violations.append((signature, path))
        print("VIOLATION property=%s replay=%s  # %s" % (self.pid, path, signature))
        sys.stdout.flush()
        return True

    def finish(self):
        wall = time.time() - self.t0
        if self.expired():
            self.cov["exhaustive"] = False
            self.cov["deadline_hit"] = True
        self.cov["known_findings_seen"] = sorted(self.known_hit)
        ev = dict(property_id=self.pid, tier=self.tier, seed=self.seed, level=self.level, coverage=self.cov,
                  assumptions=self.assumptions, wall_s=round(wall, 2), violations=len(self.violations))
        if not self.noev:
            os.makedirs(os.path.join(VERIF, "evidence"), exist_ok=True)
            tmp = os.path.join(VERIF, "evidence", self.pid + ".json.tmp")
            with open(tmp, "w") as fh:
                json.dump(ev, fh, indent=1, default=str)
            os.replace(tmp, os.path.join(VERIF, "evidence", self.pid + ".json"))
        print("%s tier=%s evaluations=%d nontrivial=%d exhaustive=%s violations=%d known=%d wall=%.1fs" % (
            self.pid, self.tier, self.cov["evaluations"], self.cov["distinct_nontrivial"], self.cov["exhaustive"],
            len(self.violations), len(self.known_hit), wall))
        sys.exit(1 if self.violations else 0)


# --------------------------------------------------------------------------------------------
# parallel map over chunks with one worker process per pool process

_workers = {}


def get_worker(variant="plain", **kw):
    key = (variant, os.getpid())
    w = _workers.get(key)
    if w is None or w.p is None:
        w = Worker(variant, **kw)
        _workers[key] = w
    return w


def drop_worker(variant="plain"):
    key = (variant, os.getpid())
    w = _workers.pop(key, None)
    if w:
        w.close()


def pmap(fn, chunks, check=None, nproc=16, prebuild=("plain",)):
    """yield fn(chunk) results (unordered). Stops handing out work at the check's deadline."""
    import multiprocessing as mp
    for v in prebuild:
        worker_exe(v)          # build once in the parent, not 16 times concurrently
    chunks = list(chunks)
    if nproc <= 1 or len(chunks) <= 1:
        for c in chunks:
            if check and check.expired():
                check.cov["exhaustive"] = False
                return
            yield fn(c)
        return
    ctx = mp.get_context("fork")
    with ctx.Pool(nproc) as pool:
        pending = []
        it = iter(chunks)
        done = False
        inflight = 0
        import collections
        q = collections.deque()
        def feed():
            nonlocal done, inflight
            while not done and inflight < nproc * 2:
                if check and check.expired():
                    done = True
                    check.cov["exhaustive"] = False
                    break
                try:
                    c = next(it)
                except StopIteration:
                    done = True
                    break
                q.append(pool.apply_async(fn, (c,)))
                inflight += 1
        feed()
        while q:
            r = q.popleft()
            res = r.get()
            inflight -= 1
            feed()
            yield res


def chunked(seq, n):
    buf = []
    for x in seq:
        buf.append(x)
        if len(buf) >= n:
            yield buf
            buf = []
    if buf:
        yield buf


def pmap_ordered(fn, chunks, check=None, nproc=16, prebuild=("plain",)):
    """like pmap but results come back in input order (stops early at the deadline)"""
    import multiprocessing as mp
    for v in prebuild:
        worker_exe(v)
    chunks = list(chunks)
    if len(chunks) <= 1 or nproc <= 1:
        for c in chunks:
            if check and check.expired():
                check.cov["exhaustive"] = False
                return
            yield fn(c)
        return
    ctx = mp.get_context("fork")
    with ctx.Pool(nproc) as pool:
        for r in pool.imap(fn, chunks):
            yield r
            if check and check.expired():
                check.cov["exhaustive"] = False
                pool.terminate()
                return


def blobs_dir():
    """files extracted from /repo/tests/blob.h (PE32_FILE.bin, ELF32_FILE.bin, ...)"""
    d = os.path.join(yvbuild.BUILD, "blobs")
    src = os.path.join(yvbuild.REPO, "tests", "blob.h")
    stamp = os.path.join(d, ".stamp")
    key = hashlib.sha256(open(src, "rb").read() + open(os.path.join(H, "blobs.c"), "rb").read()).hexdigest()
    if os.path.exists(stamp) and open(stamp).read() == key:
        return d
    os.makedirs(d, exist_ok=True)
    exe = os.path.join(d, "blobs_dump")
    subprocess.check_call(["gcc", "-w", "-I" + os.path.join(yvbuild.REPO, "tests"), os.path.join(H, "blobs.c"), "-o", exe])
    subprocess.check_call([exe, d])
    open(stamp, "w").write(key)
    return d


def blob(name):
    return open(os.path.join(blobs_dir(), name + ".bin"), "rb").read()


def repo_file(rel):
    return open(os.path.join(yvbuild.REPO, rel), "rb").read()


def space_exe(variant):
    if ("space", variant) not in _exe_cache:
        _exe_cache[("space", variant)] = yvbuild.link(variant, "space", [os.path.join(H, "space.c"), os.path.join(H, "yvcommon.c")])
    return _exe_cache[("space", variant)]


class Space:
    """driver of harness/space.c (program x buffer-space loops against the reference matchers)"""
    def __init__(self, variant="plain"):
        env = dict(os.environ); env.update(ASAN_ENV)
        self.variant = variant
        self.p = subprocess.Popen([space_exe(variant)], stdin=subprocess.PIPE, stdout=subprocess.PIPE, stderr=subprocess.PIPE, env=env)
        self.spacecmds = []

    def send(self, line):
        self.p.stdin.write((line + "\n").encode()); self.p.stdin.flush()
        ln = self.p.stdout.readline()
        if not ln:
            rc = self.p.wait()
            err = self.p.stderr.read().decode(errors="replace")[-4000:]
            raise WorkerDied(line, rc, err)
        return json.loads(ln)

    def space(self, line):
        self.spacecmds.append(line)
        return self.send(line)

    def restart(self):
        try: self.p.kill(); self.p.wait()
        except Exception: pass
        cmds = self.spacecmds
        self.__init__(self.variant)
        for c in cmds:
            self.space(c)

    def close(self):
        try:
            self.p.stdin.close(); self.p.wait(timeout=5)
        except Exception:
            self.p.kill()
