#!/usr/bin/env python3
"""Build libyara (and optionally cli objects) of the *current* /repo working tree into
/verif/build/<variant>/.  Never writes into /repo.

usage: build.py <variant> [...]      -> prints the directory of each built variant
       as module: build.ensure(variant) -> dict(dir=..., lib=..., cc=..., cflags=[...], ldflags=[...])

The repo root is /repo unless YV_REPO is set (used by selftest to point at a scratch worktree).
"""
import hashlib, json, os, subprocess, sys, shutil, concurrent.futures as cf

VERIF = os.path.dirname(os.path.dirname(os.path.abspath(__file__)))
REPO = os.environ.get("YV_REPO", "/repo")
BUILD = os.environ.get("YV_BUILD", os.path.join(VERIF, "build"))

LIB_SRCS = """
modules/tests/tests.c modules/elf/elf.c modules/math/math.c modules/time/time.c
modules/pe/pe.c modules/pe/pe_utils.c modules/console/console.c modules/string/string.c
modules/hash/hash.c modules/dotnet/dotnet.c modules/macho/macho.c modules/dex/dex.c
modules/pe/authenticode-parser/authenticode.c modules/pe/authenticode-parser/certificate.c
modules/pe/authenticode-parser/helper.c modules/pe/authenticode-parser/countersignature.c
modules/pe/authenticode-parser/structs.c
ahocorasick.c arena.c atoms.c base64.c bitmask.c compiler.c endian.c exec.c exefiles.c
filemap.c hash.c libyara.c mem.c modules.c notebook.c object.c parser.c proc.c re.c rules.c
scan.c scanner.c simple_str.c sizedstr.c stack.c stopwatch.c strutils.c stream.c
tlshc/tlsh.c tlshc/tlsh_impl.c tlshc/tlsh_util.c threading.c proc/linux.c
""".split()
GEN = [("grammar", "lexer"), ("hex_grammar", "hex_lexer"), ("re_grammar", "re_lexer")]
CLI_SRCS = ["args.c", "common.c", "threading.c", "yara.c", "yarac.c"]

DEFS = ("-D_GNU_SOURCE -DUSE_LINUX_PROC -DDOTNET_MODULE -DHASH_MODULE -DMACHO_MODULE -DDEX_MODULE "
        "-DBUCKETS_128=1 -DCHECKSUM_1B=1 -DHAVE_LIBCRYPTO=1 -DHAVE_MEMMEM=1 -DHAVE_TIMEGM=1 "
        "-DHAVE_CLOCK_GETTIME=1 -DHAVE_STDBOOL_H=1 -DHAVE_SCAN_PROC_IMPL=1 -DHAVE_STDIO_H=1 "
        "-DHAVE_STDLIB_H=1 -DHAVE_STRING_H=1 -DHAVE_INTTYPES_H=1 -DHAVE_STDINT_H=1 -DHAVE_UNISTD_H=1 "
        "-DHAVE_OPENSSL_EVP_H=1 -DHAVE_OPENSSL_ASN1_H=1 -DHAVE_OPENSSL_CRYPTO_H=1 "
        "-DHAVE_OPENSSL_BIO_H=1 -DHAVE_OPENSSL_PKCS7_H=1 -DHAVE_OPENSSL_X509_H=1 "
        "-DHAVE_OPENSSL_SAFESTACK_H=1 -DYARA_VERIF "
        '-DPACKAGE_STRING="yara-4.5.2" -DPACKAGE_VERSION="4.5.2" -DVERSION="4.5.2"').split()

SAN = ["-fsanitize=address,undefined",
       "-fno-sanitize=alignment,signed-integer-overflow,shift-base,function,nonnull-attribute,pointer-overflow",
       "-fno-omit-frame-pointer", "-fno-sanitize-recover=undefined"]
SMALL = ["-DYR_STRING_CHAINING_THRESHOLD=3", "-DYR_MAX_STRING_MATCHES=8", "-DYR_SLOW_STRING_MATCHES=6",
         "-DRE_MAX_FIBERS=16", "-DYR_RE_SCAN_LIMIT=32", "-DRE_MAX_SPLIT_ID=8"]
SCHED = ["-Dpthread_mutex_lock=yv_mutex_lock", "-Dpthread_mutex_unlock=yv_mutex_unlock",
         "-Dsigaction(a,b,c)=yv_sigaction(a,b,c)"]

# stopwatch.c reads the clock through a harness-owned seam in every variant (real clock unless the
# harness switches to the virtual one); see harness/yvcommon.c
PER_FILE = {"stopwatch.c": ["-Dclock_gettime=yv_clock_gettime"]}

VARIANTS = {
    "plain": dict(cc="gcc", cflags=["-O2", "-g0"]),
    "small": dict(cc="gcc", cflags=["-O2", "-g0"] + SMALL),
    "asan": dict(cc="clang", cflags=["-O1", "-g"] + SAN, ldflags=SAN),
    "asansmall": dict(cc="clang", cflags=["-O1", "-g"] + SAN + SMALL, ldflags=SAN),
    "sched": dict(cc="gcc", cflags=["-O1", "-g"] + SCHED),
    "schedsmall": dict(cc="gcc", cflags=["-O1", "-g"] + SCHED + SMALL),
    "schedasan": dict(cc="clang", cflags=["-O1", "-g"] + SAN + SCHED, ldflags=SAN),
    "tsan": dict(cc="clang", cflags=["-O1", "-g", "-fsanitize=thread"], ldflags=["-fsanitize=thread"]),
    "cov": dict(cc="gcc", cflags=["-O0", "-g0", "-DYYDEBUG=1"]),
}


def repo_hash():
    h = hashlib.sha256()
    for root in ("libyara", "cli"):
        for d, dirs, files in os.walk(os.path.join(REPO, root)):
            dirs.sort()
            if ".libs" in dirs: dirs.remove(".libs")
            if ".deps" in dirs: dirs.remove(".deps")
            for f in sorted(files):
                if f.endswith((".c", ".h", ".y", ".l")) or f == "module_list":
                    p = os.path.join(d, f)
                    h.update(p[len(REPO):].encode()); h.update(b"\0")
                    with open(p, "rb") as fh: h.update(fh.read())
                    h.update(b"\0")
    return h.hexdigest()


def _run(cmd, cwd=None):
    r = subprocess.run(cmd, cwd=cwd, stdout=subprocess.PIPE, stderr=subprocess.PIPE)
    if r.returncode != 0:
        sys.stderr.write("BUILD FAILED: %s\n%s\n%s\n" % (" ".join(cmd), r.stdout.decode(errors="replace")[-3000:], r.stderr.decode(errors="replace")[-6000:]))
        raise SystemExit(3)
    return r.stdout


def incs(gen):
    L = os.path.join(REPO, "libyara")
    return ["-I" + gen, "-I" + os.path.join(L, "include"), "-I" + L, "-I" + REPO,
            "-I" + os.path.join(REPO, "cli")]


def ensure(variant, want_cli=False):
    v = VARIANTS[variant]
    out = os.path.join(BUILD, variant)
    gen = os.path.join(out, "gen")
    with open(os.path.abspath(__file__), "rb") as fh:
        selfh = hashlib.sha256(fh.read()).hexdigest()
    key = json.dumps([repo_hash(), selfh, v, REPO], sort_keys=True)
    stamp = os.path.join(out, ".stamp")
    info = dict(dir=out, lib=os.path.join(out, "libyara.a"), cc=v["cc"],
                cflags=v["cflags"] + DEFS + incs(gen) + ["-w"],
                ldflags=v.get("ldflags", []) + ["-lcrypto", "-lm", "-lpthread"],
                cliobjs={s: os.path.join(out, "cli_" + s[:-2] + ".o") for s in CLI_SRCS})
    if os.path.exists(stamp) and open(stamp).read() == key:
        return info
    if os.path.isdir(out):
        shutil.rmtree(out)
    os.makedirs(gen)
    L = os.path.join(REPO, "libyara")
    for g, l in GEN:
        _run(["bison", "-d", "-Wno-yacc", "-Wno-other", "-Wno-conflicts-sr", "-o", os.path.join(gen, g + ".c"), os.path.join(L, g + ".y")], cwd=gen)
        with open(os.path.join(gen, l + ".c"), "wb") as fh:
            fh.write(_run(["flex", "-t", os.path.join(L, l + ".l")], cwd=gen))
    jobs = []
    for s in LIB_SRCS:
        o = os.path.join(out, s.replace("/", "_")[:-2] + ".o")
        jobs.append((os.path.join(L, s), o, PER_FILE.get(os.path.basename(s), [])))
    for g, l in GEN:
        for n in (g, l):
            jobs.append((os.path.join(gen, n + ".c"), os.path.join(out, "gen_" + n + ".o"), []))
    for s in CLI_SRCS:
        jobs.append((os.path.join(REPO, "cli", s), info["cliobjs"][s], []))

    def cc(job):
        src, obj, extra = job
        _run([v["cc"], "-c", src, "-o", obj] + info["cflags"] + extra)
        return obj
    with cf.ThreadPoolExecutor(16) as ex:
        objs = list(ex.map(cc, jobs))
    libobjs = [o for o in objs if not os.path.basename(o).startswith("cli_")]
    _run(["ar", "rcs", info["lib"]] + libobjs)
    with open(stamp, "w") as fh:
        fh.write(key)
    return info


def link(variant, name, srcs, extra_cflags=(), extra_ld=(), objs=()):
    """compile harness sources against a variant; rebuilds when sources or lib changed"""
    info = ensure(variant)
    exe = os.path.join(info["dir"], name)
    h = hashlib.sha256()
    for s in srcs:
        h.update(open(s, "rb").read())
    for d, _, fs in os.walk(os.path.join(VERIF, "harness")):
        for f in sorted(fs):
            if f.endswith(".h"):
                h.update(open(os.path.join(d, f), "rb").read())
    h.update(open(os.path.join(info["dir"], ".stamp"), "rb").read())
    h.update(json.dumps([list(extra_cflags), list(extra_ld), list(objs)]).encode())
    st = exe + ".stamp"
    if os.path.exists(exe) and os.path.exists(st) and open(st).read() == h.hexdigest():
        return exe
    _run([info["cc"]] + list(srcs) + list(objs) + ["-o", exe, "-I" + os.path.join(VERIF, "harness")] +
         info["cflags"] + list(extra_cflags) + [info["lib"]] + list(extra_ld) + info["ldflags"])
    with open(st, "w") as fh:
        fh.write(h.hexdigest())
    return exe


if __name__ == "__main__":
    for a in sys.argv[1:]:
        print(ensure(a)["dir"])
