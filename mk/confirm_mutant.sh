#!/bin/sh
# usage: confirm_mutant.sh <worktree> <seedname> <property>
# Confirms in the scratch worktree: patch applies, tree builds, 16 tests pass with it, demo fails with it and passes without.
# On success copies patch.diff / demo / NOTES.md into /verif/seeded/<seedname>/ and writes meta.json.
set -u
wt=$1; name=$2; prop=$3
cd "$wt" || exit 2
git checkout -q -- libyara cli 2>/dev/null
git apply --check _mutant/patch.diff || { echo "PATCH DOES NOT APPLY"; exit 1; }
git apply _mutant/patch.diff
make -j16 check > _mutant/confirm_check.log 2>&1
pass=$(grep -c '^PASS:' _mutant/confirm_check.log); fail=$(grep -c '^FAIL:' _mutant/confirm_check.log)
echo "with patch: PASS=$pass FAIL=$fail"
demo=_mutant/demo.c
if [ -f _mutant/demo.sh ]; then timeout 600 sh _mutant/demo.sh > _mutant/demo_with.log 2>&1; rc_with=$?
elif [ -f $demo ]; then gcc $demo -I libyara/include -I libyara .libs/libyara.a -lcrypto -lm -lpthread -o _mutant/demo_bin 2>_mutant/demo_build.log || { echo "demo build failed"; cat _mutant/demo_build.log | head; }
  timeout 120 ./_mutant/demo_bin > _mutant/demo_with.log 2>&1; rc_with=$?
elif [ -f _mutant/demo.sh ]; then timeout 300 sh _mutant/demo.sh > _mutant/demo_with.log 2>&1; rc_with=$?; fi
echo "demo with patch rc=$rc_with"
git checkout -q -- libyara cli
make -j16 > _mutant/confirm_rebuild.log 2>&1
if [ -f _mutant/demo.sh ]; then timeout 600 sh _mutant/demo.sh > _mutant/demo_without.log 2>&1; rc_without=$?
elif [ -f $demo ]; then gcc $demo -I libyara/include -I libyara .libs/libyara.a -lcrypto -lm -lpthread -o _mutant/demo_bin 2>/dev/null
  timeout 120 ./_mutant/demo_bin > _mutant/demo_without.log 2>&1; rc_without=$?
elif [ -f _mutant/demo.sh ]; then timeout 300 sh _mutant/demo.sh > _mutant/demo_without.log 2>&1; rc_without=$?; fi
echo "demo without patch rc=$rc_without"
rm -f _mutant/demo_bin
if [ "$pass" = 16 ] && [ "$fail" = 0 ] && [ "$rc_with" != 0 ] && [ "$rc_without" = 0 ]; then
  d=/verif/seeded/$name; mkdir -p $d
  cp _mutant/patch.diff $d/; [ -f _mutant/demo.c ] && cp _mutant/demo.c $d/; [ -f _mutant/demo.sh ] && cp _mutant/demo.sh $d/; cp _mutant/NOTES.md $d/ 2>/dev/null
  python3 - "$d" "$prop" "$rc_with" <<'PY'
import json,sys,os
d,prop,rc=sys.argv[1:4]
notes=open(os.path.join(d,'NOTES.md')).read() if os.path.exists(os.path.join(d,'NOTES.md')) else ''
meta=dict(property=prop, origin="independent sub-agent given only the property text and a scratch worktree",
  confirmed=dict(test_suite_with_patch="16/16 PASS (make -j16 check in scratch worktree)", demo_with_patch_rc=int(rc), demo_without_patch_rc=0),
  needs="see NOTES.md", detected_by=None)
p=os.path.join(d,'meta.json')
if os.path.exists(p):
    old=json.load(open(p)); meta['detected_by']=old.get('detected_by'); meta['needs']=old.get('needs',meta['needs'])
json.dump(meta,open(p,'w'),indent=1)
PY
  echo "CONFIRMED -> $d"
else echo "NOT CONFIRMED"; exit 1; fi
