#!/usr/bin/env python3
"""(re)generate /verif/MANIFEST.json from the table below; a property is claimed only when checks/<id>.py exists"""
import json, os
V = os.path.dirname(os.path.dirname(os.path.abspath(__file__)))
T = {
 "C01": ("exploration", "small-scope exhaustive enumeration (strings x modifier sets x buffers) vs naive reference matcher", "3/C01",
         "every text string over a 4-byte alphabet up to a length bound (plus all 256 byte values through 7 templates with case-bit flips) x every legal modifier set x every buffer up to a length bound is scanned by the real engine and compared offset-by-offset (offset, length, xor key) with a by-definition matcher; exhaustive inside the bound, silent outside",
         "reference matcher ref_text (harness/refmatch.h) encodes the manual's modifier semantics; gcc/clang; bounded alphabet and lengths"),
 "C02": ("exploration", "small-scope exhaustive enumeration (hex patterns x buffers) vs position-set reference", "3/C02",
         "every hex pattern of a bounded grammar x every buffer over 4 byte values; chains reached with a scaled threshold build and with the real 200-byte threshold; window family: every fixed-length run of 5..8 one-byte elements (longer than the atom window) against its own instance / near-miss buffers", "ref_hex position-set semantics; scaled-limit build is a different instantiation of the same source"),
 "C03": ("exploration", "small-scope exhaustive enumeration (regex ASTs x buffers) vs position-set reference", "3/C03",
         "every regex AST up to a node bound, greedy and lazy, x flags x every buffer over a 6-letter alphabet compared with a set-of-positions regex semantics; families with one and two counted repeats around the atom; window family of 5..8 one-character nodes (plain, grouped, alternation branch, counted)", "ref_re; bounded AST size and alphabet"),
 "C04": ("exploration", "exhaustive enumeration of condition sub-languages vs independent evaluator", "3/C04",
         "complete operator tables, precedence pairs, undefined placements, string queries, of/for forms, a grid of constant operator expressions as at / in / reader operands, and `Q of (<rule set>)` with the referenced rules at every position of the match-bit words, evaluated by the real VM and by a Python evaluator written from the manual", "ref_cond evaluator (lib/refcond.py)"),
 "C05": ("exploration", "exhaustive enumeration of rule sub-multisets and orders, twin + reference oracle", "3/C05",
         "every ordered subset of a rule pool (and every small set of strings over {a,b}) compiled together vs alone; every pool rule after N filler rules with N around the bitmap boundaries 8/64/128/256; every cut of a namespace text into add calls and includes; wide sets whose members differ only in binary table keys (digest ranges, NUL-prefixed strings); traces must agree", "pool composition; reference matcher for the automaton sub-space"),
 "C06": ("exploration", "exhaustive 1-deviation neighbourhood of seed files under ASan/UBSan", "3/C06",
         "every truncation and every single boundary-value byte/field deviation of in-tree executables (little- and big-endian ELF, PE, Mach-O, DEX, .NET) and of a synthetic .NET image with recursive metadata is scanned with generated all-fields rules under sanitizers; nothing is claimed beyond the neighbourhood", "seed set; sanitizer as crash oracle; UBSan groups disabled as listed in DESIGN 5"),
 "C07": ("exploration", "exhaustive token-level 1-deviation neighbourhood of seed rules + all short token sequences, under ASan with leak accounting", "3/C07",
         "every truncation / token deletion / duplication / dictionary substitution of a seed corpus is compiled; all short token sequences for conditions, strings and regexes (regexes with strict escape checking off and on, which must agree); one source per compile-time error code; crash, diagnosis (non-empty message, line number) and leak oracles", "seed corpus and dictionary; wrapped allocator accounting"),
 "C08": ("exploration", "exhaustive construct pairs x stream chunkings, twin oracle", "3/C08",
         "every pair of constructs saved and reloaded through every chunking; traces, metadata and bytes compared; file API over absent / shorter / longer existing files; API histories of depth<=3", "construct list"),
 "C09": ("model_checking", "preemption-bounded exhaustive schedule enumeration of real threads under a cooperative scheduler + free-running TSan pass", "3/C09",
         "all interleavings (bounded preemptions; unbounded for two threads in the thorough tier) of 2-3 real scanning threads at hooked synchronisation points and callbacks, seven scenarios incl. equal-size buffers with logged module values and a match-limit overflow on a scaled build; per-thread trace equals solo trace; handler/use-count invariants in every state", "scheduler serialises threads (no weak memory); plain data races only via the TSan pass"),
 "C10": ("model_checking", "explicit-state BFS over scan histories on the real scanner, fresh-scanner differential oracle", "3/C10",
         "every history of scans/outcomes (normal, abort/error at every message, timeout at every poll, match limit, fiber-pool exhaustion, not-ready resumed/abandoned for text/ELF/PE) up to a depth; each step compared with the same scan on a new scanner; leak accounting after destroy", "alphabet of scans/outcomes"),
 "C11": ("model_checking", "exhaustive enumeration of rule sequences x flag settings x callback-answer scripts against a protocol automaton", "3/C11",
         "the callback's answers are the environment: every rule sequence up to length 3/4 x flags x buffers x every script with <=2 non-continue answers is run on the real scanner and compared message-by-message with the protocol model", "protocol model ref_cb written from the property text"),
 "C12": ("exploration", "exhaustive twin enumeration (fast mode, atom tables, forced evaluation, constant/expression/external rewrites)", "3/C12",
         "each rewrite family is enumerated completely over its space and the verdicts compared with the un-rewritten rule and with the reference value", "ref_cond for folded values"),
 "C13": ("model_checking", "exhaustive enumeration of block partitions x not-ready answer subsets on the real scanner", "3/C13",
         "the iterator's answers are the environment: every partition x every subset of calls answering not-ready; final trace must equal the uninterrupted one; rule by rule a partition that cuts none of the rule's occurrences must equal the whole-buffer scan; 8 entry points x 10 sizes", "iterator model in the worker"),
 "C14": ("exploration", "exhaustive (offset,length,partition) enumeration vs hashlib/zlib/math", "3/C14",
         "all (offset,length) pairs over small buffers x block partitions x call orders compared with python reference implementations", "hashlib, zlib, python math"),
 "C15": ("exploration", "boundary enumeration per limit + exhaustive timeout poll index under a harness-owned clock", "3/C15",
         "each limit at L-1, L, L+1, far beyond, for every configured L; every loop-iterator kind at every stack size and the regex code-size limit at one-byte granularity under ASan; timeout at every poll index", "virtual clock; scaled-limit build"),
 "C16": ("fault_enumeration", "exhaustive allocation-failure enumeration (every k, single and persistent) under ASan with leak accounting", "3/C16",
         "for every scenario and every allocation index k the k-th allocation fails; error/complete-correctly oracle, leak and canary oracles", "link-time malloc wrap sees libyara/flex allocations only"),
 "C17": ("fault_enumeration", "exhaustive prefix (crash point) and header-field corruption enumeration of saved rule files", "3/C17",
         "every prefix of saved images and every field corruption is loaded; header fields and buffer offsets have one legal value (reference layout); any other accepted image must behave like the intact rules", "set of saved images"),
 "C18": ("model_checking", "preemption-bounded schedule enumeration of the real CLI main under a scheduler shim + TLA+/TLC model of the queue bound to the code by transition-set equality and path replay + black-box differential", "3/C18",
         "all schedules (bounded preemptions, state-hash pruned) of the real cli/yara.c main with 1-3 threads over small directories; TLC explores the queue model for larger parameters; at the smallest parameters the model's state graph and the implementation's complete exploration have equal abstract transition sets and a path to every model transition is replayed on the implementation", "threading shim replaces cli/threading.c; model bound at small parameters"),
 "C19": ("exploration", "exhaustive sweep of initial arena capacities (every growth position) with twin oracle under ASan", "3/C19",
         "each rule set compiled with every initial capacity c in a range covering every allocation point; traces and saved bytes must be identical", "YARA_VERIF hook in yr_compiler_create"),
 "C20": ("model_checking", "explicit-state BFS over define/create/scan histories vs a 3-level environment model", "3/C20",
         "every history up to a depth is executed on the real objects (six variables of four types, identifiers in prefix relation, unknown / wrongly typed definitions); return codes and probe-rule verdicts compared with the model in every step", "environment model ref_env"),
}
ENGINE = {"C01": "space", "C02": "space", "C03": "space", "C05": "space+yvw", "C09": "yvsched+c09", "C18": "yvsched+c18+tlc"}
NA_REASON = "check not built yet in this session (planned in DESIGN.md section 3); not claimed until its quick tier has run end-to-end on the unchanged tree"
checks, na = [], []
for pid in sorted(T):
    lvl, tech, ref, text, note = T[pid]
    if os.path.exists(os.path.join(V, "checks", pid.lower() + ".py")):
        checks.append(dict(property_id=pid, quick_cmd="python3 check.py %s --tier quick" % pid,
                           thorough_cmd="python3 check.py %s --tier thorough" % pid,
                           evidence_file="evidence/%s.json" % pid,
                           replay_cmd_template="python3 check.py %s --replay {path}" % pid,
                           engine=ENGINE.get(pid, "yvw"), level_claimed=dict(category=lvl, text=text, design_ref=ref), level_note=note, technique=tech))
    else:
        na.append(dict(property_id=pid, reason=NA_REASON))
import subprocess
hooks = subprocess.run(["git", "-C", "/repo", "log", "--format=%H %s"], stdout=subprocess.PIPE).stdout.decode().splitlines()
hook_commits = [l.split()[0] for l in hooks if "verif hook" in l]
M = dict(version=1, setup_cmd="python3 mk/setup.py",
         hooks=dict(guard="YARA_VERIF", enable="mk/build.py compiles every variant with -DYARA_VERIF (out of tree, into /verif/build)",
                    baseline_off_cmd="make -C /repo -j16 check", source_commits=hook_commits, add_only=True),
         engines=[dict(name="yvw", path="harness/yvw.c", serves_properties=[c["property_id"] for c in checks if c["engine"] in ("yvw", "space+yvw")],
                       kind_free_text="persistent C worker driving the public libyara API from a line protocol (allocation wrapper, scripted block iterator, callback scripts, virtual clock); python orchestrators enumerate the spaces"),
                  dict(name="space", path="harness/space.c", serves_properties=["C01", "C02", "C03", "C05"],
                       kind_free_text="in-process exhaustive loops: program x every buffer of a space, compared with reference matchers (harness/refmatch.h)"),
                  dict(name="yvsched", path="harness/yvsched.c", serves_properties=["C09", "C18"],
                       kind_free_text="cooperative scheduler over real pthreads with schedule replay; drivers harness/c09.c and harness/c18.c; explorer (DFS, preemption bound, state hashing) in checks/c09.py and checks/c18.py"),
                  dict(name="tlc", path="models/CliQueue.tla", serves_properties=["C18"],
                       kind_free_text="TLA+ model of the CLI file queue checked by TLC and bound to the implementation (checks/c18_model.py)")],
         checks=checks, not_applicable=na,
         notes="see DESIGN.md; all checks rebuild libyara from /repo's working tree into /verif/build (content-hashed)")
json.dump(M, open(os.path.join(V, "MANIFEST.json"), "w"), indent=1)
print("claimed:", [c["property_id"] for c in checks])
