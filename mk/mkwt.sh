#!/bin/sh
# usage: mkwt.sh <name>  -> creates /tmp/wt/<name>, a worktree of /repo HEAD with the in-tree build artefacts copied in
set -e
d=/tmp/wt/$1
mkdir -p /tmp/wt
[ -d "$d" ] && { git -C /repo worktree remove --force "$d" 2>/dev/null || rm -rf "$d"; }
git -C /repo worktree prune
git -C /repo worktree add -q --detach "$d" HEAD
rsync -a --exclude .git /repo/ "$d"/
echo "$d"
