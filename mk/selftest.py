#!/usr/bin/env python3
"""selftest.py [seedname ...] : for each /verif/seeded/<name>, apply patch.diff to /repo, run the quick check of the property
it breaks (no evidence written), expect exit 1 + VIOLATION, and always revert /repo afterwards."""
import json, os, subprocess, sys, time
V = os.path.dirname(os.path.dirname(os.path.abspath(__file__)))
names = sys.argv[1:] or sorted(os.listdir(os.path.join(V, "seeded")))
tier = os.environ.get("SELFTEST_TIER", "quick")
res = {}
for n in names:
    d = os.path.join(V, "seeded", n)
    if not os.path.exists(os.path.join(d, "meta.json")): continue
    meta = json.load(open(os.path.join(d, "meta.json")))
    props = meta["property"] if isinstance(meta["property"], list) else [meta["property"]]
    extra = os.environ.get("SELFTEST_CHECKS")
    if extra: props = extra.split(",")
    if subprocess.run(["git", "-C", "/repo", "status", "--porcelain", "--untracked-files=no"], stdout=subprocess.PIPE).stdout.strip():
        print("refusing: /repo has uncommitted changes"); sys.exit(2)
    try:
        subprocess.check_call(["git", "-C", "/repo", "apply", os.path.join(d, "patch.diff")])
        for p in props:
            if not os.path.exists(os.path.join(V, "checks", p.lower() + ".py")):
                res[(n, p)] = "no-check"; continue
            t = time.time()
            r = subprocess.run(["python3", os.path.join(V, "check.py"), p, "--tier", tier, "--no-evidence"], stdout=subprocess.PIPE, stderr=subprocess.STDOUT, cwd=V)
            out = r.stdout.decode(errors="replace")
            v = [l for l in out.splitlines() if l.startswith("VIOLATION")]
            res[(n, p)] = "DETECTED" if (r.returncode == 1 and v) else "MISSED(rc=%d)" % r.returncode
            print("%s vs %s: %s in %.0fs  %s" % (n, p, res[(n, p)], time.time() - t, v[0][:160] if v else out.strip().splitlines()[-1][:200] if out.strip() else ""))
            sys.stdout.flush()
    finally:
        subprocess.check_call(["git", "-C", "/repo", "checkout", "--", "."])
print(json.dumps({"%s/%s" % k: v for k, v in res.items()}, indent=1))
