#!/usr/bin/env python3
"""setup: build the variants and harness binaries the quick checks need (offline, from files on disk)"""
import os, sys
sys.path.insert(0, os.path.join(os.path.dirname(os.path.abspath(__file__)), "..", "lib"))
import yv
for v in ("plain", "asan", "small", "asansmall"):
    yv.worker_exe(v)
for v in ("plain", "asan", "small"):
    yv.space_exe(v)
for v in ("sched", "schedsmall", "tsan"):
    yv.yvbuild.ensure(v)
print("setup ok")
