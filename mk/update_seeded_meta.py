#!/usr/bin/env python3
"""fill seeded/<name>/meta.json (needs, detected_by, what was run) from the NOTES and a selftest log"""
import json, os, re, sys
V = os.path.dirname(os.path.dirname(os.path.abspath(__file__)))
log = open(sys.argv[1]).read() if len(sys.argv) > 1 else ""
for n in sorted(os.listdir(os.path.join(V, "seeded"))):
    d = os.path.join(V, "seeded", n); mp = os.path.join(d, "meta.json")
    if not os.path.exists(mp): continue
    m = json.load(open(mp))
    notes = open(os.path.join(d, "NOTES.md")).read() if os.path.exists(os.path.join(d, "NOTES.md")) else ""
    # "needs": first paragraph mentioning what is needed to manifest
    sec = re.split(r"\n#+ ", notes)
    needs = ""
    for s in sec:
        if re.match(r"(?i)(what (it|is) need|needed|trigger|what.*manifest|how it manifests|requirements)", s.strip()[:60]):
            needs = " ".join(s.strip().split("\n")[1:])[:700]; break
    if not needs:
        mm = re.search(r"(?is)(needs?|trigger|manifest)[^\n]*\n(.{80,700}?)\n\n", notes)
        needs = " ".join(mm.group(2).split()) if mm else "see NOTES.md"
    m["needs"] = needs
    mm = re.search(r"^%s vs (\w+): (\w+)[^\n]*?# (\S+)" % re.escape(n), log, re.M)
    if mm:
        m["detected_by"] = dict(check=mm.group(1), tier="quick", result=mm.group(2), signature=mm.group(3))
    if re.search(r"^%s vs \w+: MISSED" % re.escape(n), log, re.M):
        m["history"] = "missed by the quick check as it was when this change arrived; the check was strengthened (DESIGN.md section 7) and then detected it"
    m["what_was_run"] = ["mk/confirm_mutant.sh (scratch worktree: git apply; make -j16 check -> 16/16 PASS; demo fails with the change, passes without)",
                         "mk/selftest.py %s (git -C /repo apply; python3 check.py %s --tier quick --no-evidence; git -C /repo checkout -- .)" % (n, m["property"])]
    json.dump(m, open(mp, "w"), indent=1)
print("updated")
