---------------------------- MODULE CliQueue ----------------------------
(* The file queue of cli/yara.c (file_queue_put / file_queue_get / file_queue_finish, scanning_thread, the create/join
   loop of main) at exactly the granularity of the scheduler shim used by checks/c18.py: one step = the thread chosen at
   a scheduling decision runs from its current scheduling point to its next one (or blocks without advancing).
   Thread 1 is main (the producer), threads 2..K+1 are the scanning threads.  The variables st, np, unused, used, head,
   tail are exactly the abstract state the implementation harness reports at every decision, which is how the model is
   bound to the code (state-graph conformance + replay of a path to every model transition). *)
EXTENDS Naturals, Sequences, FiniteSets
CONSTANTS K, N, Q, T
VARIABLES st, np, pc, blk, unused, used, head, tail, created, fileidx, tokens, joined, gotfile, dequeued, overflow, last

vars == <<st, np, pc, blk, unused, used, head, tail, created, fileidx, tokens, joined, gotfile, dequeued, overflow, last>>
Threads == 1..(K + 1)

Init == /\ st = [t \in Threads |-> IF t = 1 THEN "R" ELSE "U"]
        /\ np = [t \in Threads |-> 0]
        /\ pc = [t \in Threads |-> "init"]
        /\ blk = [t \in Threads |-> "none"]
        /\ unused = 0 /\ used = 0 /\ head = 0 /\ tail = 0      \* the semaphores are initialised by main's first segment (file_queue_init)
        /\ created = 0 /\ fileidx = 0 /\ tokens = 0 /\ joined = 0
        /\ gotfile = [t \in Threads |-> FALSE]
        /\ dequeued = 0 /\ overflow = FALSE /\ last = 0

Wake(s, what) == [t \in Threads |-> IF s[t] = "B" /\ blk[t] = what THEN "R" ELSE s[t]]
Unblk(what) == [t \in Threads |-> IF st[t] = "B" /\ blk[t] = what THEN "none" ELSE blk[t]]

Adv(t, newpc) == /\ pc' = [pc EXCEPT ![t] = newpc] /\ np' = [np EXCEPT ![t] = @ + 1]

\* main posts the first finish token (file_queue_finish) and reaches the sem-post point
StartFinish == /\ used' = used + 1 /\ tokens' = 1
               /\ st' = Wake(st, "used") /\ blk' = Unblk("used")
               /\ Adv(1, "fin")

MainStep ==
  \/ /\ pc[1] = "init" /\ Adv(1, "create") /\ unused' = Q
     /\ UNCHANGED <<st, blk, used, head, tail, created, fileidx, tokens, joined, gotfile, dequeued, overflow>>
  \/ /\ pc[1] = "create"
     /\ created' = created + 1
     /\ IF created + 1 < K
          THEN /\ st' = [st EXCEPT ![created + 2] = "R"] /\ Adv(1, "create")
               /\ UNCHANGED <<blk, used, tokens>>
          ELSE IF N > 0
                 THEN /\ st' = [st EXCEPT ![created + 2] = "R"] /\ Adv(1, "wait")
                      /\ UNCHANGED <<blk, used, tokens>>
                 ELSE /\ used' = used + 1 /\ tokens' = 1
                      /\ st' = [Wake(st, "used") EXCEPT ![created + 2] = "R"] /\ blk' = Unblk("used")
                      /\ Adv(1, "fin")
     /\ UNCHANGED <<unused, head, tail, fileidx, joined, gotfile, dequeued, overflow>>
  \/ /\ pc[1] = "wait"
     /\ IF unused > 0
          THEN /\ unused' = unused - 1 /\ Adv(1, "lock") /\ UNCHANGED <<st, blk>>
          ELSE /\ st' = [st EXCEPT ![1] = "B"] /\ blk' = [blk EXCEPT ![1] = "unused"] /\ UNCHANGED <<unused, pc, np>>
     /\ UNCHANGED <<used, head, tail, created, fileidx, tokens, joined, gotfile, dequeued, overflow>>
  \/ /\ pc[1] = "lock"
     /\ overflow' = (overflow \/ ((tail + 1) % (Q + 1) = head))
     /\ tail' = (tail + 1) % (Q + 1)
     /\ Adv(1, "unlock")
     /\ UNCHANGED <<st, blk, unused, used, head, created, fileidx, tokens, joined, gotfile, dequeued>>
  \/ /\ pc[1] = "unlock"
     /\ used' = used + 1 /\ st' = Wake(st, "used") /\ blk' = Unblk("used")
     /\ Adv(1, "post")
     /\ UNCHANGED <<unused, head, tail, created, fileidx, tokens, joined, gotfile, dequeued, overflow>>
  \/ /\ pc[1] = "post"
     /\ fileidx' = fileidx + 1
     /\ IF fileidx + 1 < N
          THEN /\ Adv(1, "wait") /\ UNCHANGED <<st, blk, used, tokens>>
          ELSE StartFinish
     /\ UNCHANGED <<unused, head, tail, created, joined, gotfile, dequeued, overflow>>
  \/ /\ pc[1] = "fin"
     /\ IF tokens < T
          THEN /\ used' = used + 1 /\ tokens' = tokens + 1 /\ st' = Wake(st, "used") /\ blk' = Unblk("used") /\ Adv(1, "fin")
          ELSE /\ Adv(1, "join") /\ UNCHANGED <<used, tokens, st, blk>>
     /\ UNCHANGED <<unused, head, tail, created, fileidx, joined, gotfile, dequeued, overflow>>
  \/ /\ pc[1] = "join"
     /\ IF st[joined + 2] = "D"
          THEN /\ joined' = joined + 1
               /\ IF joined + 1 < K
                    THEN /\ Adv(1, "join") /\ UNCHANGED <<st, blk>>
                    ELSE /\ st' = [st EXCEPT ![1] = "D"] /\ pc' = [pc EXCEPT ![1] = "done"] /\ UNCHANGED <<np, blk>>
          ELSE /\ st' = [st EXCEPT ![1] = "B"] /\ blk' = [blk EXCEPT ![1] = "join"] /\ UNCHANGED <<joined, pc, np>>
     /\ UNCHANGED <<unused, used, head, tail, created, fileidx, tokens, gotfile, dequeued, overflow>>

ConsStep(c) ==
  \/ /\ pc[c] = "init" /\ Adv(c, "wait")
     /\ UNCHANGED <<st, blk, unused, used, head, tail, created, fileidx, tokens, joined, gotfile, dequeued, overflow>>
  \/ /\ pc[c] = "wait"
     /\ IF used > 0
          THEN /\ used' = used - 1 /\ Adv(c, "lock") /\ UNCHANGED <<st, blk>>
          ELSE /\ st' = [st EXCEPT ![c] = "B"] /\ blk' = [blk EXCEPT ![c] = "used"] /\ UNCHANGED <<used, pc, np>>
     /\ UNCHANGED <<unused, head, tail, created, fileidx, tokens, joined, gotfile, dequeued, overflow>>
  \/ /\ pc[c] = "lock"
     /\ IF head = tail
          THEN /\ gotfile' = [gotfile EXCEPT ![c] = FALSE] /\ UNCHANGED <<head, dequeued>>
          ELSE /\ gotfile' = [gotfile EXCEPT ![c] = TRUE] /\ head' = (head + 1) % (Q + 1) /\ dequeued' = dequeued + 1
     /\ Adv(c, "unlock")
     /\ UNCHANGED <<st, blk, unused, used, tail, created, fileidx, tokens, joined, overflow>>
  \/ /\ pc[c] = "unlock"
     /\ unused' = unused + 1 /\ st' = Wake(st, "unused") /\ blk' = Unblk("unused")
     /\ Adv(c, "post")
     /\ UNCHANGED <<used, head, tail, created, fileidx, tokens, joined, gotfile, dequeued, overflow>>
  \/ /\ pc[c] = "post"
     /\ IF gotfile[c]
          THEN /\ Adv(c, "wait") /\ UNCHANGED <<st, blk>>
          ELSE /\ st' = [t \in Threads |-> IF t = c THEN "D" ELSE IF st[t] = "B" /\ blk[t] = "join" /\ t = 1 /\ joined + 2 = c THEN "R" ELSE st[t]]
               /\ blk' = [t \in Threads |-> IF t = 1 /\ st[1] = "B" /\ blk[1] = "join" /\ joined + 2 = c THEN "none" ELSE blk[t]]
               /\ pc' = [pc EXCEPT ![c] = "done"] /\ UNCHANGED np
     /\ UNCHANGED <<unused, used, head, tail, created, fileidx, tokens, joined, gotfile, dequeued, overflow>>

Step(t) == /\ st[t] = "R" /\ last' = t
           /\ IF t = 1 THEN MainStep ELSE ConsStep(t)

AllDone == \A t \in Threads : st[t] = "D"
Terminated == AllDone /\ UNCHANGED vars
Next == (\E t \in Threads : Step(t)) \/ Terminated
Spec == Init /\ [][Next]_vars

\* ---- properties
NoOverflow == ~overflow                                   \* no slot is overwritten before it has been read
SemBounds == unused <= Q + K + 1 /\ used <= N + T          \* semaphore counts stay bounded
EachFileOnce == dequeued <= N /\ (AllDone => dequeued = N)   \* every file is dequeued exactly once
TypeOK == /\ head \in 0..Q /\ tail \in 0..Q
=============================================================================
